fn main(){}
