//! vprobe: the same program built in every configuration of the lattice (C03, C20). It runs every
//! dispatching algorithm (ChaCha wide + narrow through the 7 cipher types, BLAKE-224/256/384/512
//! compress + finalize, JH f8) on a fixed input set, compares every output with the reference
//! models and prints one JSON line: {"cases", "fingerprint", "mismatches", "panics", ...}.
use cipher::generic_array::GenericArray;
use cipher::{NewCipher, StreamCipher, StreamCipherSeek};
use digest::Digest;
use vref::chacha::{Layout, Stream};

fn fnv_update(h: &mut u64, data: &[u8]) {
    for b in data {
        *h ^= *b as u64;
        *h = h.wrapping_mul(0x100000001b3);
    }
}

struct Out {
    cases: u64,
    fp: u64,
    mism: Vec<String>,
    panics: Vec<String>,
}

fn guarded<R>(f: impl FnOnce() -> R) -> Result<R, String> {
    std::panic::catch_unwind(std::panic::AssertUnwindSafe(f)).map_err(|e| {
        if let Some(s) = e.downcast_ref::<&str>() { s.to_string() } else if let Some(s) = e.downcast_ref::<String>() { s.clone() } else { "panic".into() }
    })
}

fn key_pattern(i: usize) -> [u8; 32] {
    let mut k = [0u8; 32];
    for (j, b) in k.iter_mut().enumerate() {
        *b = (0x31 + 7 * j + 13 * i) as u8 ^ ((j * j) as u8);
    }
    k
}
fn nonce_pattern(i: usize, len: usize) -> Vec<u8> {
    (0..len).map(|j| (0xa5 + 11 * j + 29 * i) as u8 ^ ((j * 3) as u8)).collect()
}

macro_rules! chacha {
    ($o:expr, $ty:ty, $name:expr, $layout:expr, $dr:expr, $nl:expr, $long:expr) => {{
        let mut pos: Vec<u64> = vec![0, 1, 63, 64, 65, 255, 256, 257, (1 << 32) - 1, 1 << 32, (1 << 38) - 1031, (1 << 38) - 65, (1 << 38) - 64, (1 << 38) - 128, (1 << 38) - 192, (1 << 38) - 256, (1 << 38) - 320];
        if $layout != Layout::Ietf {
            pos.extend_from_slice(&[1 << 38, (1 << 38) + 1, (1 << 40) + 7, 1 << 63, u64::MAX - 1031, u64::MAX - 64]);
        }
        let lens: Vec<usize> = if $long { vec![1, 63, 64, 65, 127, 128, 129, 255, 256, 257, 320, 511, 512, 513, 1031] } else { vec![1, 63, 64, 65, 255, 256, 257, 320, 1031] };
        for ki in 0..2 {
            for ni in 0..2 {
                let key = key_pattern(ki);
                let nonce = nonce_pattern(ni, $nl);
                let s = Stream::new($layout, $dr, &key, &nonce);
                for &p in &pos {
                    for &l in &lens {
                        if p as u128 + l as u128 > s.limit() {
                            continue;
                        }
                        $o.cases += 1;
                        let r = guarded(|| {
                            let mut c = <$ty as NewCipher>::new(GenericArray::from_slice(&key), GenericArray::from_slice(&nonce));
                            c.seek(p);
                            let mut b = vec![0u8; l];
                            c.apply_keystream(&mut b);
                            b
                        });
                        match r {
                            Err(e) => $o.panics.push(format!("{} pos={} len={}: {}", $name, p, l, e)),
                            Ok(b) => {
                                fnv_update(&mut $o.fp, &b);
                                if b != s.bytes(p as u128, l) {
                                    $o.mism.push(format!("{} pos={} len={}", $name, p, l));
                                }
                            }
                        }
                    }
                }
            }
        }
    }};
}

macro_rules! hash {
    ($o:expr, $ty:ty, $name:expr, $block:expr, $refe:expr, $long:expr) => {{
        let maxlen = if $long { 6 * $block + 2 } else { 3 * $block + 2 };
        let mut msgs: Vec<Vec<u8>> = (0..=maxlen).map(|n| (0..n).map(|i| (i as u8).wrapping_add((i >> 8) as u8)).collect()).collect();
        for b in 0..8 * $block {
            let mut m = vec![0u8; $block];
            m[b / 8] = 0x80 >> (b % 8);
            msgs.push(m);
        }
        for m in &msgs {
            $o.cases += 1;
            match guarded(|| <$ty>::digest(m).to_vec()) {
                Err(e) => $o.panics.push(format!("{} len={}: {}", $name, m.len(), e)),
                Ok(d) => {
                    fnv_update(&mut $o.fp, &d);
                    let f: &dyn Fn(&[u8]) -> Vec<u8> = &$refe;
                    if d != f(m) {
                        $o.mism.push(format!("{} len={}", $name, m.len()));
                    }
                }
            }
        }
    }};
}

// which Machine the dispatch macros hand out in THIS configuration (the macro is expanded in this crate,
// so vprobe declares a `std` feature of its own that the driver switches together with the others)
#[macro_use]
extern crate ppv_lite86;
#[allow(unused_imports)]
use ppv_lite86::Machine;
dispatch!(m, Mach, {
    fn dispatched_machine() -> &'static str {
        let _ = m;
        core::any::type_name::<Mach>()
    }
});
dispatch_light128!(m, Mach, {
    fn dispatched_machine_light128() -> &'static str {
        let _ = m;
        core::any::type_name::<Mach>()
    }
});
dispatch_light256!(m, Mach, {
    fn dispatched_machine_light256() -> &'static str {
        let _ = m;
        core::any::type_name::<Mach>()
    }
});

// the type names of the x86 machines, taken from the tree under test through ppv-lite86's public aliases
// (so the driver's implementation-selection oracle follows a rename of the underlying types)
#[cfg(all(not(feature = "ppv_no_simd"), not(feature = "chacha_no_simd")))]
fn machine_names() -> String {
    use core::any::type_name as tn;
    use ppv_lite86::x86_64 as x;
    format!("{{\"sse2\":\"{}\",\"ssse3\":\"{}\",\"sse41\":\"{}\",\"avx\":\"{}\",\"avx2\":\"{}\"}}", tn::<x::SSE2>(), tn::<x::SSSE3>(), tn::<x::SSE41>(), tn::<x::AVX>(), tn::<x::AVX2>())
}
#[cfg(not(all(not(feature = "ppv_no_simd"), not(feature = "chacha_no_simd"))))]
fn machine_names() -> String {
    "null".to_string()
}

fn main() {
    let args: Vec<String> = std::env::args().collect();
    std::panic::set_hook(Box::new(|_| {}));
    let mut forced = 0u8;
    if let Some(i) = args.iter().position(|a| a == "--force") {
        forced = args[i + 1].parse().unwrap();
    }
    let long = args.iter().any(|a| a == "--long");
    #[cfg(all(cryptocorrosion_verif, not(feature = "ppv_no_simd"), not(feature = "chacha_no_simd")))]
    ppv_lite86::x86_64::verif::force_backend(forced);
    #[cfg(not(all(cryptocorrosion_verif, not(feature = "ppv_no_simd"), not(feature = "chacha_no_simd"))))]
    if forced != 0 {
        eprintln!("this configuration cannot force a backend");
        std::process::exit(2);
    }
    let mut o = Out { cases: 0, fp: 0xcbf29ce484222325, mism: vec![], panics: vec![] };
    chacha!(o, c2_chacha::Ietf, "Ietf", Layout::Ietf, 10, 12, long);
    chacha!(o, c2_chacha::ChaCha8, "ChaCha8", Layout::Djb, 4, 8, long);
    chacha!(o, c2_chacha::ChaCha12, "ChaCha12", Layout::Djb, 6, 8, long);
    chacha!(o, c2_chacha::ChaCha20, "ChaCha20", Layout::Djb, 10, 8, long);
    chacha!(o, c2_chacha::XChaCha8, "XChaCha8", Layout::X, 4, 24, long);
    chacha!(o, c2_chacha::XChaCha12, "XChaCha12", Layout::X, 6, 24, long);
    chacha!(o, c2_chacha::XChaCha20, "XChaCha20", Layout::X, 10, 24, long);
    hash!(o, blake_hash::Blake224, "Blake224", 64, |m| vref::blake::blake(224, m), long);
    hash!(o, blake_hash::Blake256, "Blake256", 64, |m| vref::blake::blake(256, m), long);
    hash!(o, blake_hash::Blake384, "Blake384", 128, |m| vref::blake::blake(384, m), long);
    hash!(o, blake_hash::Blake512, "Blake512", 128, |m| vref::blake::blake(512, m), long);
    let jt = vref::jh::Tables::new();
    hash!(o, jh_x86_64::Jh224, "Jh224", 64, |m| vref::jh::jh(&jt, 224, m), long);
    hash!(o, jh_x86_64::Jh256, "Jh256", 64, |m| vref::jh::jh(&jt, 256, m), long);
    hash!(o, jh_x86_64::Jh384, "Jh384", 64, |m| vref::jh::jh(&jt, 384, m), long);
    hash!(o, jh_x86_64::Jh512, "Jh512", 64, |m| vref::jh::jh(&jt, 512, m), long);
    // Groestl selects its implementation itself (lazy run-time detection with std, cfg(target_feature) without)
    #[cfg(feature = "groestl")]
    {
        let gt = vref::groestl::Tables::new();
        hash!(o, groestl_aesni::Groestl224, "Groestl224", 64, |m| vref::groestl::groestl(&gt, 224, m), long);
        hash!(o, groestl_aesni::Groestl256, "Groestl256", 64, |m| vref::groestl::groestl(&gt, 256, m), long);
        hash!(o, groestl_aesni::Groestl384, "Groestl384", 128, |m| vref::groestl::groestl(&gt, 384, m), long);
        hash!(o, groestl_aesni::Groestl512, "Groestl512", 128, |m| vref::groestl::groestl(&gt, 512, m), long);
    }
    #[cfg(all(cryptocorrosion_verif, not(feature = "ppv_no_simd"), not(feature = "chacha_no_simd")))]
    let taken: Vec<usize> = ppv_lite86::x86_64::verif::taken_counts().to_vec();
    #[cfg(not(all(cryptocorrosion_verif, not(feature = "ppv_no_simd"), not(feature = "chacha_no_simd"))))]
    let taken: Vec<usize> = vec![];
    let q = |v: &Vec<String>| format!("[{}]", v.iter().take(12).map(|s| format!("\"{}\"", s.replace('"', "'").replace('\\', "/"))).collect::<Vec<_>>().join(","));
    println!(
        "{{\"cases\":{},\"fingerprint\":\"{:016x}\",\"n_mismatches\":{},\"n_panics\":{},\"mismatches\":{},\"panics\":{},\"forced\":{},\"taken\":{:?},\"machine\":\"{}\",\"machine_light128\":\"{}\",\"machine_light256\":\"{}\",\"machine_names\":{}}}",
        o.cases, o.fp, o.mism.len(), o.panics.len(), q(&o.mism), q(&o.panics), forced, taken, dispatched_machine(), dispatched_machine_light128(), dispatched_machine_light256(), machine_names()
    );
}
