//! Uniform access to the 15 hash types (+ Skein with many output sizes) and their reference models.
use digest::generic_array::typenum::*;
use digest::Digest;
use std::sync::OnceLock;

pub fn jh_tables() -> &'static vref::jh::Tables {
    static T: OnceLock<vref::jh::Tables> = OnceLock::new();
    T.get_or_init(vref::jh::Tables::new)
}
pub fn groestl_tables() -> &'static vref::groestl::Tables {
    static T: OnceLock<vref::groestl::Tables> = OnceLock::new();
    T.get_or_init(vref::groestl::Tables::new)
}

#[derive(Clone, Copy, PartialEq, Eq, Debug)]
pub enum Family {
    Blake,
    Groestl,
    Jh,
    Skein,
}

/// Incremental reference model with an overwritable length counter (for C17).
pub enum RefHasher {
    Blake(vref::blake::Blake),
    Groestl(vref::groestl::Groestl<'static>),
    Jh(vref::jh::Jh<'static>),
    Skein(vref::skein::Skein),
}
impl RefHasher {
    pub fn update(&mut self, d: &[u8]) {
        match self {
            RefHasher::Blake(h) => h.update(d),
            RefHasher::Groestl(h) => h.update(d),
            RefHasher::Jh(h) => h.update(d),
            RefHasher::Skein(h) => h.update(d),
        }
    }
    pub fn finalize(self) -> Vec<u8> {
        match self {
            RefHasher::Blake(h) => h.finalize(),
            RefHasher::Groestl(h) => h.finalize(),
            RefHasher::Jh(h) => h.finalize(),
            RefHasher::Skein(h) => h.finalize(),
        }
    }
    /// overwrite the counter in the unit the implementation uses (BLAKE bits, Groestl blocks, JH bytes, Skein bytes)
    pub fn set_counter(&mut self, c: u128) {
        match self {
            RefHasher::Blake(h) => h.bits_absorbed = c,
            RefHasher::Groestl(h) => h.blocks = c,
            RefHasher::Jh(h) => h.bytes_absorbed = c,
            RefHasher::Skein(h) => h.pos = c,
        }
    }
}

pub trait HK: Send + Sync + 'static {
    type D: Digest + digest::FixedOutput + Clone + Send + Sync;
    const NAME: &'static str;
    const FAMILY: Family;
    const BITS: usize;
    const BLOCK: usize;
    const OUT: usize;
    fn reference() -> RefHasher;
    fn ref_digest(msg: &[u8]) -> Vec<u8> {
        let mut r = Self::reference();
        r.update(msg);
        r.finalize()
    }
    /// hook H2: counter in the implementation's unit (two words for BLAKE)
    fn set_counter(d: &mut Self::D, c: u128);
    fn get_counter(d: &Self::D) -> u128;
}

#[macro_export]
macro_rules! hk {
    ($k:ident, $ty:ty, $name:expr, $fam:expr, $bits:expr, $block:expr, $out:expr, $refe:expr, $set:expr, $get:expr) => {
        pub struct $k;
        impl $crate::hashers::HK for $k {
            type D = $ty;
            const NAME: &'static str = $name;
            const FAMILY: Family = $fam;
            const BITS: usize = $bits;
            const BLOCK: usize = $block;
            const OUT: usize = $out;
            fn reference() -> RefHasher {
                $refe
            }
            #[cfg(cryptocorrosion_verif)]
            fn set_counter(d: &mut Self::D, c: u128) {
                let f: fn(&mut $ty, u128) = $set;
                f(d, c)
            }
            #[cfg(cryptocorrosion_verif)]
            fn get_counter(d: &Self::D) -> u128 {
                let f: fn(&$ty) -> u128 = $get;
                f(d)
            }
            #[cfg(not(cryptocorrosion_verif))]
            fn set_counter(_d: &mut Self::D, _c: u128) {
                panic!("hook H2 not compiled in")
            }
            #[cfg(not(cryptocorrosion_verif))]
            fn get_counter(_d: &Self::D) -> u128 {
                panic!("hook H2 not compiled in")
            }
        }
    };
}

macro_rules! blake_hk {
    ($k:ident, $ty:ty, $name:expr, $bits:expr, $block:expr, $w:ty, $wb:expr) => {
        hk!($k, $ty, $name, Family::Blake, $bits, $block, $bits / 8, RefHasher::Blake(vref::blake::Blake::new($bits)),
            |d, c| d.verif_set_counter(c as $w, (c >> $wb) as $w),
            |d| { let (a, b) = d.verif_get_counter(); (a as u128) | ((b as u128) << $wb) });
    };
}
blake_hk!(KBlake224, blake_hash::Blake224, "Blake224", 224, 64, u32, 32);
blake_hk!(KBlake256, blake_hash::Blake256, "Blake256", 256, 64, u32, 32);
blake_hk!(KBlake384, blake_hash::Blake384, "Blake384", 384, 128, u64, 64);
blake_hk!(KBlake512, blake_hash::Blake512, "Blake512", 512, 128, u64, 64);

macro_rules! groestl_hk {
    ($k:ident, $ty:ty, $name:expr, $bits:expr, $block:expr) => {
        hk!($k, $ty, $name, Family::Groestl, $bits, $block, $bits / 8, RefHasher::Groestl(vref::groestl::Groestl::new(groestl_tables(), $bits)),
            |d, c| d.verif_set_counter(c as u64), |d| d.verif_get_counter() as u128);
    };
}
groestl_hk!(KGroestl224, groestl_aesni::Groestl224, "Groestl224", 224, 64);
groestl_hk!(KGroestl256, groestl_aesni::Groestl256, "Groestl256", 256, 64);
groestl_hk!(KGroestl384, groestl_aesni::Groestl384, "Groestl384", 384, 128);
groestl_hk!(KGroestl512, groestl_aesni::Groestl512, "Groestl512", 512, 128);

macro_rules! jh_hk {
    ($k:ident, $ty:ty, $name:expr, $bits:expr) => {
        hk!($k, $ty, $name, Family::Jh, $bits, 64, $bits / 8, RefHasher::Jh(vref::jh::Jh::new(jh_tables(), $bits)),
            |d, c| d.verif_set_counter(c as usize), |d| d.verif_get_counter() as u128);
    };
}
jh_hk!(KJh224, jh_x86_64::Jh224, "Jh224", 224);
jh_hk!(KJh256, jh_x86_64::Jh256, "Jh256", 256);
jh_hk!(KJh384, jh_x86_64::Jh384, "Jh384", 384);
jh_hk!(KJh512, jh_x86_64::Jh512, "Jh512", 512);

#[macro_export]
macro_rules! skein_hk {
    ($k:ident, $ty:ident, $sb:expr, $n:ty, $nn:expr) => {
        hk!($k, skein_hash::$ty<$n>, concat!(stringify!($ty), "<", stringify!($n), ">"), Family::Skein, $sb * 8, $sb, $nn,
            RefHasher::Skein(vref::skein::Skein::new($sb, $nn)),
            |d, c| d.verif_set_counter(c as u64), |d| d.verif_get_counter() as u128);
    };
}
skein_hk!(KSkein256_32, Skein256, 32, U32, 32);
skein_hk!(KSkein512_64, Skein512, 64, U64, 64);
skein_hk!(KSkein1024_128, Skein1024, 128, U128, 128);

/// Run a generic function for each of the 15 hash types of the property list.
#[macro_export]
macro_rules! for_each_hasher {
    ($f:ident $(, $arg:expr)*) => {{
        $f::<$crate::hashers::KBlake224>($($arg),*);
        $f::<$crate::hashers::KBlake256>($($arg),*);
        $f::<$crate::hashers::KBlake384>($($arg),*);
        $f::<$crate::hashers::KBlake512>($($arg),*);
        $f::<$crate::hashers::KGroestl224>($($arg),*);
        $f::<$crate::hashers::KGroestl256>($($arg),*);
        $f::<$crate::hashers::KGroestl384>($($arg),*);
        $f::<$crate::hashers::KGroestl512>($($arg),*);
        $f::<$crate::hashers::KJh224>($($arg),*);
        $f::<$crate::hashers::KJh256>($($arg),*);
        $f::<$crate::hashers::KJh384>($($arg),*);
        $f::<$crate::hashers::KJh512>($($arg),*);
        $f::<$crate::hashers::KSkein256_32>($($arg),*);
        $f::<$crate::hashers::KSkein512_64>($($arg),*);
        $f::<$crate::hashers::KSkein1024_128>($($arg),*);
    }};
}

/// message patterns: byte i of pattern p
pub fn pat_byte(p: u8, i: usize) -> u8 {
    match p {
        0 => 0,
        1 => (i as u8).wrapping_mul(1).wrapping_add((i >> 8) as u8),
        2 => 0xff,
        _ => ((i * 131 + 89) % 251) as u8 ^ p,
    }
}
pub fn pattern(p: u8, n: usize) -> Vec<u8> {
    (0..n).map(|i| pat_byte(p, i)).collect()
}

/// Call `$f::<H>($args)` for the hasher kind whose NAME equals `$name` (the 15 of the property list).
#[macro_export]
macro_rules! with_hasher {
    ($name:expr, $f:ident $(, $arg:expr)*) => {{
        use $crate::hashers::*;
        let n: &str = $name;
        if n == KBlake224::NAME { Some($f::<KBlake224>($($arg),*)) }
        else if n == KBlake256::NAME { Some($f::<KBlake256>($($arg),*)) }
        else if n == KBlake384::NAME { Some($f::<KBlake384>($($arg),*)) }
        else if n == KBlake512::NAME { Some($f::<KBlake512>($($arg),*)) }
        else if n == KGroestl224::NAME { Some($f::<KGroestl224>($($arg),*)) }
        else if n == KGroestl256::NAME { Some($f::<KGroestl256>($($arg),*)) }
        else if n == KGroestl384::NAME { Some($f::<KGroestl384>($($arg),*)) }
        else if n == KGroestl512::NAME { Some($f::<KGroestl512>($($arg),*)) }
        else if n == KJh224::NAME { Some($f::<KJh224>($($arg),*)) }
        else if n == KJh256::NAME { Some($f::<KJh256>($($arg),*)) }
        else if n == KJh384::NAME { Some($f::<KJh384>($($arg),*)) }
        else if n == KJh512::NAME { Some($f::<KJh512>($($arg),*)) }
        else if n == KSkein256_32::NAME { Some($f::<KSkein256_32>($($arg),*)) }
        else if n == KSkein512_64::NAME { Some($f::<KSkein512_64>($($arg),*)) }
        else if n == KSkein1024_128::NAME { Some($f::<KSkein1024_128>($($arg),*)) }
        else { None }
    }};
}
