//! C17: hash length counters at word boundaries. (a) hook H2: implementation and reference model
//! are fast-forwarded to the same counter value just below a boundary (same chaining value: the
//! IV), then every short history crossing the boundary is executed on both; (b) real streaming
//! across the first boundary.
use crate::hashers::*;
use crate::report::*;
use digest::Digest;
use rayon::prelude::*;
use serde_json::{json, Value};

/// (boundary value in the implementation's unit, exclusive format limit in that unit)
fn boundaries<H: HK>() -> (Vec<u128>, u128, u128) {
    // returns (boundaries, limit, unit = counter units per block)
    match H::FAMILY {
        Family::Blake => {
            let per_block = 8 * H::BLOCK as u128; // bits
            if H::BITS <= 256 {
                (vec![1 << 32, 1 << 33, 1 << 48, 1 << 63, 1 << 64], 1 << 64, per_block)
            } else {
                (vec![1 << 32, 1 << 63, 1 << 64, 1 << 65, 1 << 96, 1 << 127, u128::MAX], u128::MAX, per_block)
            }
        }
        Family::Groestl => (vec![1 << 8, 1 << 16, 1 << 24, 1 << 32, 1 << 40, 1 << 63, 1 << 64], 1 << 64, 1),
        Family::Jh => (vec![1 << 29, 1 << 32, 1 << 40, 1 << 56, 1 << 61], 1 << 61, 64),
        Family::Skein => (vec![1 << 32, 1 << 40, 1 << 63, 1 << 64], 1 << 64, H::BLOCK as u128),
    }
}

/// how many counter units `bytes` message bytes consume at most (upper bound incl. padding blocks)
fn units<H: HK>(bytes: usize) -> u128 {
    match H::FAMILY {
        Family::Blake => 8 * bytes as u128,
        Family::Groestl => (bytes / H::BLOCK) as u128 + 2,
        Family::Jh => bytes as u128,
        Family::Skein => bytes as u128,
    }
}

fn run_one<H: HK>(rep: &mut Report, depth: usize) {
    let b = H::BLOCK;
    let lens = [0usize, 1, b - 1, b, b + 1, 2 * b];
    let (bounds, limit, per_block) = boundaries::<H>();
    // histories: sequences of <= depth-1 operations followed by finalize; an operation is update(l)
    // or (encoded as usize::MAX / usize::MAX-1) reset / finalize_fixed_reset: after those the counter
    // must be zero again whatever it was before
    const RESET: usize = usize::MAX;
    const FINRESET: usize = usize::MAX - 1;
    let mut ops: Vec<usize> = lens.to_vec();
    ops.push(RESET);
    ops.push(FINRESET);
    let mut hists: Vec<Vec<usize>> = vec![vec![]];
    let mut frontier: Vec<Vec<usize>> = vec![vec![]];
    for _ in 1..depth {
        let mut nf = Vec::new();
        for h in &frontier {
            for l in &ops {
                let mut h2 = h.clone();
                h2.push(*l);
                nf.push(h2);
            }
        }
        hists.extend(nf.iter().cloned());
        frontier = nf;
    }
    let mut cases: Vec<(u128, u128, Vec<usize>)> = Vec::new();
    for &c in &bounds {
        for k in 0..=4u128 {
            let v = match c.checked_sub(k * per_block) {
                Some(v) => v - (v % per_block),
                None => continue,
            };
            for h in &hists {
                let total: usize = h.iter().filter(|l| **l < usize::MAX - 1).sum();
                // stay inside the format limit
                if v.checked_add(units::<H>(total)).map(|x| x >= limit).unwrap_or(true) {
                    continue;
                }
                cases.push((c, v, h.clone()));
            }
        }
    }
    let res: Vec<_> = cases
        .par_iter()
        .map(|(_c, v, h)| {
            let (got, want) = run_history::<H>(*v, h);
            (got, want)
        })
        .collect();
    let mut crossed = 0u64;
    for (i, (got, want)) in res.into_iter().enumerate() {
        let (c, v, h) = &cases[i];
        rep.evaluations += 1;
        let total: usize = h.iter().filter(|l| **l < usize::MAX - 1).sum();
        if *v < *c && v + units::<H>(total) >= *c {
            crossed += 1;
        }
        let replay = json!({"engine":"H-stateless","check":"C17","hasher":H::NAME,"boundary":c.to_string(),"counter":v.to_string(),"updates":h.iter().map(|l| if *l == usize::MAX { json!("reset") } else if *l == usize::MAX - 1 { json!("finalize_fixed_reset") } else { json!(l) }).collect::<Vec<_>>()});
        if i % 3001 == 17 {
            rep.sample(replay.clone());
        }
        let bname = format!("2^{}", 128 - c.leading_zeros() - if c.is_power_of_two() { 1 } else { 0 });
        match got {
            Err(p) => rep.violation(&format!("c17:{}:boundary-{}:panic:{}", H::NAME, bname, panic_class(&p)), format!("counter fast-forwarded to {} then updates {:?}, finalize: panic {}", v, h, p), replay),
            Ok(g) => {
                if g != want {
                    rep.violation(&format!("c17:{}:boundary-{}:digest-mismatch", H::NAME, bname), format!("counter fast-forwarded to {} (boundary {}), updates {:?}: digest differs from the reference model with the same counter", v, bname, h), replay);
                }
            }
        }
    }
    rep.nontrivial += crossed;
    rep.add("histories_crossing_a_boundary", crossed);
    rep.add("states", (bounds.len() * 5) as u64);
    rep.add("transitions", cases.iter().map(|c| c.2.len() as u64 + 1).sum());
    let mut arr = rep.extra.get("per_hasher").cloned().unwrap_or(json!([]));
    arr.as_array_mut().unwrap().push(json!({"hasher": H::NAME, "cases": cases.len(), "crossing": crossed, "boundaries": bounds.iter().map(|b| b.to_string()).collect::<Vec<_>>()}));
    rep.set("per_hasher", arr);
}

/// one history on the reference (counter set to v on the initial chaining value) and on the implementation
fn run_history<H: HK>(v: u128, h: &[usize]) -> (Result<Vec<u8>, String>, Vec<u8>) {
    let mut r = H::reference();
    r.set_counter(v);
    let mut off = 0usize;
    for l in h {
        if *l >= usize::MAX - 1 {
            r = H::reference(); // reset / finalize+reset: a new hasher
            off = 0;
            continue;
        }
        let d: Vec<u8> = (off..off + l).map(|i| pat_byte(7, i)).collect();
        r.update(&d);
        off += l;
    }
    let want = r.finalize();
    let got = guarded(|| {
        let mut d = H::D::new();
        H::set_counter(&mut d, v);
        let mut off = 0usize;
        for l in h {
            if *l == usize::MAX {
                Digest::reset(&mut d);
                off = 0;
                continue;
            }
            if *l == usize::MAX - 1 {
                let _ = digest::FixedOutput::finalize_fixed_reset(&mut d);
                off = 0;
                continue;
            }
            let data: Vec<u8> = (off..off + l).map(|i| pat_byte(7, i)).collect();
            d.update(&data);
            off += l;
        }
        d.finalize().to_vec()
    });
    (got, want)
}

/// real streaming across `total` bytes without the hook
fn stream_one<H: HK>(rep: &mut Report, total: u64, tails: &[usize], jh_via_compressor: bool) {
    let chunk = 1usize << 16;
    let buf: Vec<u8> = (0..chunk).map(|i| pat_byte(9, i)).collect();
    let t0 = std::time::Instant::now();
    let r = guarded(|| {
        let mut d = H::D::new();
        let mut r = H::reference();
        // JH: the nibble model cannot absorb 512 MiB; chaining value over the prefix from the public
        // Compressor (certified by C06), padding + last blocks by the model
        let mut jh_c = if jh_via_compressor { Some(jh_x86_64::compressor::Compressor::new(vref::jh::iv(jh_tables(), H::BITS))) } else { None };
        let mut done = 0u64;
        while done < total {
            let n = std::cmp::min(chunk as u64, total - done) as usize;
            d.update(&buf[..n]);
            if let Some(c) = jh_c.as_mut() {
                assert!(n % 64 == 0);
                for blk in buf[..n].chunks(64) {
                    c.input(digest::generic_array::GenericArray::from_slice(blk));
                }
            } else {
                r.update(&buf[..n]);
            }
            done += n as u64;
        }
        if let (Some(c), RefHasher::Jh(j)) = (jh_c, &mut r) {
            j.h = c.finalize();
            j.bytes_absorbed = total as u128;
        }
        let mut out = Vec::new();
        for &t in tails {
            let mut d2 = d.clone();
            d2.update(&buf[..t]);
            let got = d2.finalize().to_vec();
            let mut r2 = match &r {
                RefHasher::Blake(x) => RefHasher::Blake(x.clone()),
                RefHasher::Skein(x) => RefHasher::Skein(x.clone()),
                RefHasher::Groestl(x) => RefHasher::Groestl(vref::groestl::Groestl::clone(x)),
                RefHasher::Jh(x) => RefHasher::Jh(vref::jh::Jh::clone(x)),
            };
            r2.update(&buf[..t]);
            out.push((t, got, r2.finalize()));
        }
        out
    });
    let replay = json!({"engine":"stream","check":"C17","hasher":H::NAME,"prefix_bytes":total});
    match r {
        Err(p) => rep.violation(&format!("c17:{}:stream:panic:{}", H::NAME, panic_class(&p)), p, replay),
        Ok(v) => {
            rep.sample(replay.clone());
            for (t, got, want) in v {
                rep.evaluations += 1;
                rep.nontrivial += 1;
                if got != want {
                    rep.violation(&format!("c17:{}:stream:digest-mismatch", H::NAME), format!("{} + {} bytes streamed for real: digest differs from the reference", total, t), replay.clone());
                }
            }
        }
    }
    let mut arr = rep.extra.get("streamed").cloned().unwrap_or(json!([]));
    arr.as_array_mut().unwrap().push(json!({"hasher": H::NAME, "prefix_bytes": total, "tails": tails, "wall_s": t0.elapsed().as_secs_f64(), "jh_prefix_via_public_compressor": jh_via_compressor}));
    rep.set("streamed", arr);
}

/// one single update() call carrying `total` bytes (the per-call arithmetic of update itself)
fn oneshot_one<H: HK>(rep: &mut Report, total: usize) {
    let t0 = std::time::Instant::now();
    let data: Vec<u8> = (0..total).map(|i| pat_byte(9, i % (1 << 16))).collect();
    let mut r = H::reference();
    for c in data.chunks(1 << 16) {
        r.update(c);
    }
    let want = r.finalize();
    let got = guarded(|| {
        let mut d = H::D::new();
        d.update(&data);
        d.finalize().to_vec()
    });
    rep.evaluations += 1;
    rep.nontrivial += 1;
    let replay = json!({"engine":"stream","check":"C17","hasher":H::NAME,"prefix_bytes":total,"single_update_call":true});
    match got {
        Err(p) => rep.violation(&format!("c17:{}:single-call:panic:{}", H::NAME, panic_class(&p)), format!("one update() call with {} bytes panicked: {}", total, p), replay),
        Ok(g) => {
            if g != want {
                rep.violation(&format!("c17:{}:single-call:digest-mismatch", H::NAME), format!("one update() call with {} bytes: digest differs from the reference", total), replay);
            }
        }
    }
    let mut arr = rep.extra.get("streamed").cloned().unwrap_or(json!([]));
    arr.as_array_mut().unwrap().push(json!({"hasher": H::NAME, "single_update_call_bytes": total, "wall_s": t0.elapsed().as_secs_f64()}));
    rep.set("streamed", arr);
}

/// a single update() call carrying `total` zero bytes (4 GiB and more: lazily mapped zero pages) against
/// the same bytes fed in 1 MiB pieces - differential, no model: per-call arithmetic in 32 bits shows here
fn huge_single_call<H: HK>(rep: &mut Report, total: usize) {
    let t0 = std::time::Instant::now();
    let r = guarded(|| {
        let data = vec![0u8; total];
        let mut a = H::D::new();
        a.update(&data);
        let one = a.finalize().to_vec();
        let mut b = H::D::new();
        for c in data.chunks(1 << 20) {
            b.update(c);
        }
        (one, b.finalize().to_vec())
    });
    rep.evaluations += 1;
    rep.nontrivial += 1;
    let replay = json!({"engine":"stream","check":"C17","hasher":H::NAME,"prefix_bytes":total,"single_update_call":true,"differential":"one call vs 1 MiB pieces"});
    match r {
        Err(p) => rep.violation(&format!("c17:{}:huge-single-call:panic:{}", H::NAME, panic_class(&p)), format!("one update() call with {} bytes panicked: {}", total, p), replay),
        Ok((one, pieces)) => {
            if one != pieces {
                rep.violation(&format!("c17:{}:huge-single-call:differs-from-pieces", H::NAME), format!("one update() call with {} bytes gives a different digest than the same bytes in 1 MiB pieces", total), replay);
            }
        }
    }
    let mut arr = rep.extra.get("streamed").cloned().unwrap_or(json!([]));
    arr.as_array_mut().unwrap().push(json!({"hasher": H::NAME, "single_update_call_bytes": total, "oracle": "same bytes in 1 MiB pieces", "wall_s": t0.elapsed().as_secs_f64()}));
    rep.set("streamed", arr);
}

pub fn run(tier: &str, config: &str) -> Report {
    let mut rep = Report::new("C17", tier, config);
    let th = tier == "thorough";
    let depth = if th { 4 } else { 3 };
    rep.rule = format!("hook H2: for every hasher and every counter boundary (BLAKE-224/256 bits 2^32,2^33,2^48,2^63,2^64; BLAKE-384/512 bits 2^32,2^63,2^64,2^65,2^96,2^127,2^128-1; Groestl blocks 2^8,2^16,2^24,2^32,2^40,2^63,2^64; JH bytes 2^29,2^32,2^40,2^56,2^61; Skein bytes 2^32,2^40,2^63,2^64) implementation and reference are set to the same counter value boundary - k blocks (k = 0..4) on the initial chaining value, then every history of <= {} operations (update(l), l in {{0,1,B-1,B,B+1,2B}}, reset, finalize_fixed_reset) + finalize that stays inside the format limit is executed on both; distinct_nontrivial = histories that actually cross a boundary. Real streaming (no hook): Groestl through 2^8 and 2^16 blocks{}.", depth - 1, if th { ", BLAKE-224/256 and JH through 2^32 bits (512 MiB, in 64 KiB pieces and, for BLAKE-224/256, also in ONE update call), Skein-512 through 2^32 bytes; one update() call of 4 GiB + 200 zero bytes vs the same bytes in 1 MiB pieces for Groestl-256/512, BLAKE-512, Skein-512, JH-256" } else { " (512 MiB / 4 GiB streams in the thorough tier)" });
    macro_rules! go { ($k:ty) => { if crate::guts::HOOKS { run_one::<$k>(&mut rep, depth); } }; }
    if !crate::guts::HOOKS {
        rep.assumptions.push("hook H2 is not compiled in (the hook code no longer builds against this tree): only the real-streaming part of C17 ran".into());
        rep.set("states", json!(1));
        rep.set("transitions", json!(1));
    }
    go!(KBlake224); go!(KBlake256); go!(KBlake384); go!(KBlake512);
    go!(KGroestl224); go!(KGroestl256); go!(KGroestl384); go!(KGroestl512);
    go!(KJh224); go!(KJh256); go!(KJh384); go!(KJh512);
    go!(KSkein256_32); go!(KSkein512_64); go!(KSkein1024_128);
    // real streaming
    let gt = [0usize, 1, 55, 56, 64, 119, 120, 128, 129];
    stream_one::<KGroestl256>(&mut rep, 64 * 254, &gt, false);
    stream_one::<KGroestl512>(&mut rep, 128 * 254, &gt, false);
    stream_one::<KGroestl224>(&mut rep, 64 * 65534, &gt, false);
    stream_one::<KGroestl384>(&mut rep, 128 * 65534, &gt, false);
    if th {
        let bt = [0usize, 1, 55, 56, 63, 64, 65, 128];
        stream_one::<KBlake256>(&mut rep, (1 << 29) - 64, &bt, false);
        stream_one::<KBlake224>(&mut rep, (1 << 29) - 128, &bt, false);
        stream_one::<KJh256>(&mut rep, (1 << 29) - 64, &bt, true);
        stream_one::<KJh512>(&mut rep, (1 << 29) - 128, &bt, true);
        stream_one::<KSkein512_64>(&mut rep, (1u64 << 32) - 64, &bt, false);
        // the same boundary crossed inside ONE update() call
        oneshot_one::<KBlake256>(&mut rep, (1 << 29) + 200);
        oneshot_one::<KBlake224>(&mut rep, (1 << 29) + 64);
        // one call of more than 4 GiB (slice lengths beyond 32 bits), once per family and state width
        let huge = (1usize << 32) + 200;
        huge_single_call::<KGroestl256>(&mut rep, huge);
        huge_single_call::<KGroestl512>(&mut rep, huge);
        huge_single_call::<KBlake512>(&mut rep, huge);
        huge_single_call::<KSkein512_64>(&mut rep, huge);
        huge_single_call::<KJh256>(&mut rep, huge);
    }
    let tr = rep.extra.get("transitions").and_then(|v| v.as_u64()).unwrap_or(0);
    rep.set("traces_validated_against_impl", json!(rep.evaluations));
    let _ = tr;
    rep.assumptions.push("beyond the first boundary the digest is that of a fast-forwarded state (counter overwritten on the initial chaining value), i.e. implementation and specification agree on what the counter does from there; it is not the digest of a real 2^61-byte message".into());
    rep.assumptions.push("JH 512 MiB stream: chaining value over the prefix computed with the public jh_x86_64 Compressor (F8 checked against the nibble model by C06), padding and final blocks by the model".into());
    rep
}

fn replay_one<H: HK>(v: &Value) -> bool {
    if let Some(p) = v.get("prefix_bytes") {
        println!("replay C17 {}: real stream of {} bytes - re-run `./check C17 --tier thorough` (the stream is not replayed case by case)", H::NAME, p);
        return true;
    }
    let c: u128 = v["counter"].as_str().unwrap().parse().unwrap();
    let h: Vec<usize> = v["updates"].as_array().unwrap().iter().map(|x| match x.as_str() { Some("reset") => usize::MAX, Some(_) => usize::MAX - 1, None => x.as_u64().unwrap() as usize }).collect();
    println!("replay C17 {}: counter set to {} on a fresh instance, operations {:?}, finalize", H::NAME, c, v["updates"]);
    let (got, want) = run_history::<H>(c, &h);
    println!("  expected {}", vref::hex(&want));
    match got {
        Err(p) => { println!("  observed PANIC {}", p); false }
        Ok(g) => { println!("  observed {}", vref::hex(&g)); g == want }
    }
}
pub fn replay(v: &Value) -> Option<bool> {
    crate::with_hasher!(v["hasher"].as_str()?, replay_one, v)
}
