//! C18 (Engine S): every interleaving, at API-call granularity, of N threads' first and later
//! calls from a cold process. Exactly one thread runs at a time (a baton), a schedule is the
//! sequence of thread ids; each schedule runs in a fresh subprocess so that every first use of
//! every lazily initialised global happens in every position and on every thread.
use crate::ciphers::*;
use crate::report::*;
use cipher::{StreamCipher, StreamCipherSeek};
use digest::DynDigest;
use rayon::prelude::*;
use serde_json::json;
use std::sync::{Arc, Condvar, Mutex};

#[derive(Clone, Copy, Debug)]
pub enum Prog {
    Hash(&'static str, u8),
    Cipher(&'static str, u8),
    /// a cipher variable that is re-keyed IN PLACE (`c = K::new(..)`: a different cipher at the same address)
    Rekey(&'static str, u8),
}

pub struct Scenario {
    pub name: &'static str,
    pub progs: Vec<Prog>,
    pub steps: usize,
}

/// thorough tier only: 4 threads x 3 calls = 369 600 schedules
pub fn big_scenario() -> Scenario {
    Scenario { name: "L-4threads-x3", progs: vec![Prog::Hash("Groestl256", 31), Prog::Hash("Groestl512", 32), Prog::Cipher("ChaCha20", 33), Prog::Hash("Skein512", 34)], steps: 3 }
}

pub fn scenarios() -> Vec<Scenario> {
    vec![
        Scenario { name: "a-3xGroestl256", progs: vec![Prog::Hash("Groestl256", 1), Prog::Hash("Groestl256", 2), Prog::Hash("Groestl256", 3)], steps: 3 },
        Scenario { name: "b-3xGroestl512", progs: vec![Prog::Hash("Groestl512", 1), Prog::Hash("Groestl512", 2), Prog::Hash("Groestl512", 3)], steps: 3 },
        Scenario { name: "c-mixed4", progs: vec![Prog::Hash("Groestl224", 4), Prog::Hash("Groestl384", 5), Prog::Cipher("ChaCha20", 6), Prog::Hash("Blake512", 7)], steps: 2 },
        Scenario { name: "d-mixed3", progs: vec![Prog::Hash("Jh256", 8), Prog::Hash("Skein512", 9), Prog::Cipher("XChaCha20", 10)], steps: 3 },
        Scenario { name: "e-mixed3b", progs: vec![Prog::Hash("Blake256", 11), Prog::Cipher("Ietf", 12), Prog::Hash("Groestl256", 13)], steps: 3 },
        Scenario { name: "f-2xSameHashSameMsgLen", progs: vec![Prog::Hash("Blake512", 14), Prog::Hash("Blake512", 15), Prog::Hash("Jh512", 16)], steps: 3 },
        // instances of one hash family with different output sizes / state sizes (shared per-family statics)
        Scenario { name: "g-SkeinSizes", progs: vec![Prog::Hash("Skein512/16", 17), Prog::Hash("Skein512", 18), Prog::Hash("Skein512/32", 19)], steps: 3 },
        // several cipher instances used alternately (buffered partial blocks, per-thread scratch)
        Scenario { name: "i-3xCiphers", progs: vec![Prog::Cipher("ChaCha20", 24), Prog::Cipher("ChaCha20", 25), Prog::Cipher("Ietf", 26)], steps: 3 },
        // the XChaCha round-count variants with the SAME key and nonce (anything cached per key/nonce)
        Scenario { name: "j-XChaChaSameKey", progs: vec![Prog::Cipher("XChaCha8", 27), Prog::Cipher("XChaCha12", 27), Prog::Cipher("XChaCha20", 27)], steps: 3 },
        Scenario { name: "k-ChaChaSameKey", progs: vec![Prog::Cipher("ChaCha8", 28), Prog::Cipher("ChaCha12", 28), Prog::Cipher("ChaCha20", 28), Prog::Hash("Blake256", 29)], steps: 2 },
        // all output sizes of one family on one thread (anything memoised per family rather than per type)
        Scenario { name: "m-GroestlSiblings", progs: vec![Prog::Hash("Groestl224", 35), Prog::Hash("Groestl256", 36), Prog::Hash("Groestl384", 37), Prog::Hash("Groestl512", 38)], steps: 2 },
        Scenario { name: "n-BlakeJhSiblings", progs: vec![Prog::Hash("Blake224", 39), Prog::Hash("Blake256", 40), Prog::Hash("Jh224", 41), Prog::Hash("Jh256", 42)], steps: 2 },
        Scenario { name: "o-BlakeJhSiblings2", progs: vec![Prog::Hash("Blake384", 43), Prog::Hash("Blake512", 44), Prog::Hash("Jh384", 45), Prog::Hash("Jh512", 46)], steps: 2 },
        // cipher variables re-keyed in place (anything remembered per object address)
        Scenario { name: "p-RekeyInPlace", progs: vec![Prog::Rekey("ChaCha20", 47), Prog::Rekey("Ietf", 48), Prog::Cipher("XChaCha20", 49)], steps: 3 },
        Scenario { name: "h-SkeinFamilies", progs: vec![Prog::Hash("Skein256/16", 20), Prog::Hash("Skein256", 21), Prog::Hash("Skein1024/16", 22), Prog::Hash("Skein1024", 23)], steps: 2 },
    ]
}

fn new_hasher(name: &str) -> Box<dyn DynDigest> {
    use digest::generic_array::typenum::{U128, U32, U64};
    match name {
        "Blake224" => Box::new(blake_hash::Blake224::default()),
        "Blake256" => Box::new(blake_hash::Blake256::default()),
        "Blake384" => Box::new(blake_hash::Blake384::default()),
        "Blake512" => Box::new(blake_hash::Blake512::default()),
        "Groestl224" => Box::new(groestl_aesni::Groestl224::default()),
        "Groestl256" => Box::new(groestl_aesni::Groestl256::default()),
        "Groestl384" => Box::new(groestl_aesni::Groestl384::default()),
        "Groestl512" => Box::new(groestl_aesni::Groestl512::default()),
        "Jh224" => Box::new(jh_x86_64::Jh224::default()),
        "Jh256" => Box::new(jh_x86_64::Jh256::default()),
        "Jh384" => Box::new(jh_x86_64::Jh384::default()),
        "Jh512" => Box::new(jh_x86_64::Jh512::default()),
        "Skein256" => Box::new(skein_hash::Skein256::<U32>::default()),
        "Skein512" => Box::new(skein_hash::Skein512::<U64>::default()),
        "Skein1024" => Box::new(skein_hash::Skein1024::<U128>::default()),
        "Skein512/16" => Box::new(skein_hash::Skein512::<digest::generic_array::typenum::U16>::default()),
        "Skein512/32" => Box::new(skein_hash::Skein512::<U32>::default()),
        "Skein256/16" => Box::new(skein_hash::Skein256::<digest::generic_array::typenum::U16>::default()),
        "Skein1024/16" => Box::new(skein_hash::Skein1024::<digest::generic_array::typenum::U16>::default()),
        o => panic!("unknown hasher {}", o),
    }
}
fn ref_digest(name: &str, msg: &[u8]) -> Vec<u8> {
    use crate::hashers::*;
    match name {
        "Blake224" => KBlake224::ref_digest(msg),
        "Blake256" => KBlake256::ref_digest(msg),
        "Blake384" => KBlake384::ref_digest(msg),
        "Blake512" => KBlake512::ref_digest(msg),
        "Groestl224" => KGroestl224::ref_digest(msg),
        "Groestl256" => KGroestl256::ref_digest(msg),
        "Groestl384" => KGroestl384::ref_digest(msg),
        "Groestl512" => KGroestl512::ref_digest(msg),
        "Jh224" => KJh224::ref_digest(msg),
        "Jh256" => KJh256::ref_digest(msg),
        "Jh384" => KJh384::ref_digest(msg),
        "Jh512" => KJh512::ref_digest(msg),
        "Skein256" => KSkein256_32::ref_digest(msg),
        "Skein512" => KSkein512_64::ref_digest(msg),
        "Skein1024" => KSkein1024_128::ref_digest(msg),
        "Skein512/16" => vref::skein::skein(64, msg, 16),
        "Skein512/32" => vref::skein::skein(64, msg, 32),
        "Skein256/16" => vref::skein::skein(32, msg, 16),
        "Skein1024/16" => vref::skein::skein(128, msg, 16),
        o => panic!("unknown hasher {}", o),
    }
}

fn message(seed: u8) -> Vec<u8> {
    let n = 150 + 37 * seed as usize % 200;
    (0..n).map(|i| (i as u8).wrapping_mul(seed | 1) ^ seed.rotate_left(3)).collect()
}

/// per-thread state machine; step() performs the next API call(s) and may return output bytes
enum Th {
    Hash { name: &'static str, seed: u8, h: Option<Box<dyn DynDigest>> },
    Cipher { name: &'static str, seed: u8, c: Option<Box<dyn FnMut(&str, usize) -> Vec<u8>>> },
    Rekey { name: &'static str, seed: u8, c: Option<Box<dyn FnMut(&str, usize) -> Vec<u8>>> },
}

fn cipher_runner<K: Kind>(seed: u8) -> Box<dyn FnMut(&str, usize) -> Vec<u8>> {
    let key = key_pattern(seed as usize);
    let nonce = nonce_pattern(seed as usize, K::NONCE_LEN);
    let mut c = K::new(&key, &nonce);
    Box::new(move |op, n| match op {
        "apply" => {
            let mut b = vec![0u8; n];
            c.apply_keystream(&mut b);
            b
        }
        "rekey" => {
            // n doubles as the new seed; the new cipher takes the place of the old one
            c = K::new(&key_pattern(n), &nonce_pattern(n, K::NONCE_LEN));
            let mut b = vec![0u8; if n % 2 == 0 { 10 } else { 70 }];
            c.apply_keystream(&mut b);
            b
        }
        _ => {
            c.seek(n as u64);
            let mut b = vec![0u8; 70];
            c.apply_keystream(&mut b);
            b
        }
    })
}
fn make_cipher(name: &str, seed: u8) -> Box<dyn FnMut(&str, usize) -> Vec<u8>> {
    match name {
        "ChaCha20" => cipher_runner::<KChaCha20>(seed),
        "XChaCha20" => cipher_runner::<KXChaCha20>(seed),
        "Ietf" => cipher_runner::<KIetf>(seed),
        "ChaCha8" => cipher_runner::<KChaCha8>(seed),
        "ChaCha12" => cipher_runner::<KChaCha12>(seed),
        "XChaCha8" => cipher_runner::<KXChaCha8>(seed),
        "XChaCha12" => cipher_runner::<KXChaCha12>(seed),
        o => panic!("unknown cipher {}", o),
    }
}
fn cipher_expected(name: &str, seed: u8, steps: usize) -> Vec<u8> {
    use vref::chacha::{Layout, Stream};
    let (layout, dr, nl) = match name {
        "ChaCha20" => (Layout::Djb, 10, 8),
        "XChaCha20" => (Layout::X, 10, 24),
        "Ietf" => (Layout::Ietf, 10, 12),
        "ChaCha8" => (Layout::Djb, 4, 8),
        "ChaCha12" => (Layout::Djb, 6, 8),
        "XChaCha8" => (Layout::X, 4, 24),
        "XChaCha12" => (Layout::X, 6, 24),
        o => panic!("unknown cipher {}", o),
    };
    let s = Stream::new(layout, dr, &key_pattern(seed as usize), &nonce_pattern(seed as usize, nl));
    let mut out = s.bytes(0, 100);
    if steps >= 3 {
        out.extend(s.bytes(100, 300));
        out.extend(s.bytes(33, 70));
    } else {
        out.extend(s.bytes(33, 70));
    }
    out
}

fn rekey_expected(name: &str, seed: u8) -> Vec<u8> {
    use vref::chacha::{Layout, Stream};
    let (layout, dr, nl) = match name {
        "ChaCha20" => (Layout::Djb, 10, 8),
        "Ietf" => (Layout::Ietf, 10, 12),
        o => panic!("unknown cipher {}", o),
    };
    let s1 = seed as usize + 64 + (seed as usize % 2); // even: 10 bytes
    let s2 = seed as usize + 129 - (seed as usize % 2); // odd: 70 bytes
    let mut out = Stream::new(layout, dr, &key_pattern(seed as usize), &nonce_pattern(seed as usize, nl)).bytes(0, 10);
    out.extend(Stream::new(layout, dr, &key_pattern(s1), &nonce_pattern(s1, nl)).bytes(0, if s1 % 2 == 0 { 10 } else { 70 }));
    out.extend(Stream::new(layout, dr, &key_pattern(s2), &nonce_pattern(s2, nl)).bytes(0, if s2 % 2 == 0 { 10 } else { 70 }));
    out
}

impl Th {
    fn new(p: Prog) -> Th {
        match p {
            Prog::Hash(name, seed) => Th::Hash { name, seed, h: None },
            Prog::Cipher(name, seed) => Th::Cipher { name, seed, c: None },
            Prog::Rekey(name, seed) => Th::Rekey { name, seed, c: None },
        }
    }
    fn step(&mut self, k: usize, steps: usize) -> Vec<u8> {
        match self {
            Th::Hash { name, seed, h } => {
                let m = message(*seed);
                let cut = m.len() / 3;
                if steps == 3 {
                    match k {
                        0 => { let mut x = new_hasher(name); x.update(&m[..cut]); *h = Some(x); vec![] }
                        1 => { h.as_mut().unwrap().update(&m[cut..]); vec![] }
                        _ => h.as_mut().unwrap().finalize_reset().to_vec(),
                    }
                } else {
                    match k {
                        0 => { let mut x = new_hasher(name); x.update(&m); *h = Some(x); vec![] }
                        _ => h.as_mut().unwrap().finalize_reset().to_vec(),
                    }
                }
            }
            Th::Rekey { name, seed, c } => match k {
                // 10 bytes from the first block, then two in-place re-keyings, each read from its first block
                0 => { let mut r = make_cipher(name, *seed); let o = r("apply", 10); *c = Some(r); o }
                1 => (c.as_mut().unwrap())("rekey", *seed as usize + 64 + (*seed as usize % 2)),
                _ => (c.as_mut().unwrap())("rekey", *seed as usize + 129 - (*seed as usize % 2)),
            },
            Th::Cipher { name, seed, c } => {
                if steps == 3 {
                    match k {
                        0 => { let mut r = make_cipher(name, *seed); let o = r("apply", 100); *c = Some(r); o }
                        1 => (c.as_mut().unwrap())("apply", 300),
                        _ => (c.as_mut().unwrap())("seek", 33),
                    }
                } else {
                    match k {
                        0 => { let mut r = make_cipher(name, *seed); let o = r("apply", 100); *c = Some(r); o }
                        _ => (c.as_mut().unwrap())("seek", 33),
                    }
                }
            }
        }
    }
}

pub fn expected(sc: &Scenario) -> Vec<Vec<u8>> {
    sc.progs
        .iter()
        .map(|p| match p {
            Prog::Hash(name, seed) => ref_digest(name, &message(*seed)),
            Prog::Cipher(name, seed) => cipher_expected(name, *seed, sc.steps),
            Prog::Rekey(name, seed) => rekey_expected(name, *seed),
        })
        .collect()
}

/// child: run one schedule. mode "threads": one OS thread per logical thread, baton-scheduled;
/// mode "single": the same interleaving executed by one OS thread (interleaving of instances).
pub fn child(scn: &str, schedule: &str, mode: &str) {
    let sc = scenarios().into_iter().chain(std::iter::once(big_scenario())).find(|s| s.name == scn).expect("scenario");
    let sched: Vec<usize> = schedule.bytes().map(|b| (b - b'0') as usize).collect();
    let n = sc.progs.len();
    let steps = sc.steps;
    let outs: Vec<Vec<u8>> = if mode == "single" {
        // Th holds non-Send boxes, which is fine on one thread
        let mut ths: Vec<Th> = sc.progs.iter().map(|p| Th::new(*p)).collect();
        let mut done = vec![0usize; n];
        let mut outs = vec![Vec::new(); n];
        for &t in &sched {
            let o = ths[t].step(done[t], steps);
            outs[t].extend(o);
            done[t] += 1;
        }
        outs
    } else {
        let baton = Arc::new((Mutex::new(0usize), Condvar::new())); // index into the schedule
        let sched = Arc::new(sched);
        let mut handles = Vec::new();
        for (t, p) in sc.progs.iter().enumerate() {
            let baton = baton.clone();
            let sched = sched.clone();
            let p = *p;
            handles.push(std::thread::spawn(move || {
                let mut th = Th::new(p);
                let mut out = Vec::new();
                for k in 0..steps {
                    let (m, cv) = &*baton;
                    let mut pos = m.lock().unwrap();
                    while *pos < sched.len() && sched[*pos] != t {
                        pos = cv.wait(pos).unwrap();
                    }
                    // our turn: run exactly one call while holding the baton
                    out.extend(th.step(k, steps));
                    *pos += 1;
                    cv.notify_all();
                }
                out
            }));
        }
        handles.into_iter().map(|h| h.join().expect("thread panicked")).collect()
    };
    for o in outs {
        println!("{}", vref::hex(&o));
    }
}

/// child: free-running threads released by a barrier, each repeating its program (sampling
/// supplement); prints "<results> <mismatches>"
pub fn child_free(scn: &str, copies: usize, repeat: usize) {
    let sc = scenarios().into_iter().find(|s| s.name == scn).expect("scenario");
    let steps = sc.steps;
    let want = Arc::new(expected(&sc)); // reference models only: touches no global of the crates under test
    let total = sc.progs.len() * copies;
    let barrier = Arc::new(std::sync::Barrier::new(total));
    let mut handles = Vec::new();
    for _ in 0..copies {
        for (pi, p) in sc.progs.iter().enumerate() {
            let b = barrier.clone();
            let p = *p;
            let want = want.clone();
            handles.push(std::thread::spawn(move || {
                b.wait();
                let mut bad = 0usize;
                for _ in 0..repeat {
                    let mut th = Th::new(p);
                    let mut out = Vec::new();
                    for k in 0..steps {
                        out.extend(th.step(k, steps));
                    }
                    if out != want[pi] {
                        bad += 1;
                    }
                }
                bad
            }));
        }
    }
    let mut bad = 0;
    for h in handles {
        bad += h.join().expect("thread panicked");
    }
    println!("{} {}", total * repeat, bad);
}

/// all interleavings of n threads with `steps` calls each (multiset permutations), as digit strings
pub fn schedules(n: usize, steps: usize) -> Vec<String> {
    let mut out = Vec::new();
    fn rec(left: &mut Vec<usize>, cur: &mut String, out: &mut Vec<String>) {
        if left.iter().all(|x| *x == 0) {
            out.push(cur.clone());
            return;
        }
        for t in 0..left.len() {
            if left[t] > 0 {
                left[t] -= 1;
                cur.push((b'0' + t as u8) as char);
                rec(left, cur, out);
                cur.pop();
                left[t] += 1;
            }
        }
    }
    rec(&mut vec![steps; n], &mut String::new(), &mut out);
    out
}

fn run_child(exe: &std::path::Path, args: &[&str]) -> Result<Vec<String>, String> {
    let o = std::process::Command::new(exe).args(args).output().map_err(|e| e.to_string())?;
    if !o.status.success() {
        use std::os::unix::process::ExitStatusExt;
        return Err(format!("exit {:?} signal {:?}: {}", o.status.code(), o.status.signal(), String::from_utf8_lossy(&o.stderr).chars().take(300).collect::<String>()));
    }
    Ok(String::from_utf8_lossy(&o.stdout).lines().map(|l| l.to_string()).collect())
}

pub fn run(tier: &str, config: &str) -> Report {
    let mut rep = Report::new("C18", tier, config);
    let th = tier == "thorough";
    let exe = std::env::current_exe().unwrap();
    let scs = scenarios();
    let big = big_scenario();
    let mut chosen: Vec<&Scenario> = scs.iter().collect();
    if th {
        chosen.push(&big);
    }
    rep.rule = "for each scenario (a: 3 threads Groestl256, b: 3 threads Groestl512, c: Groestl224+Groestl384+ChaCha20+Blake512 x 2 calls, d: Jh256+Skein512+XChaCha20, e: Blake256+Ietf+Groestl256, f: 2xBlake512+Jh512, g: Skein512 with 16/64/32-byte outputs, h: Skein256 and Skein1024 with two output sizes each x 2 calls, i: ChaCha20+ChaCha20+Ietf each ending calls mid-block, j: XChaCha8/12/20 with the same key and nonce, k: ChaCha8/12/20 with the same key and nonce + Blake256 x 2 calls; calls = {new+first update / first keystream request, second update / request, finalize / seek+request}) every interleaving of the threads' calls (multinomial count) is executed in a cold subprocess, once with one OS thread per logical thread under a baton scheduler and once with a single OS thread (interleaving of independent instances); oracle: each thread's outputs equal the reference model (vref) = the solo outputs; thorough adds scenario L (Groestl256+Groestl512+ChaCha20+Skein512 x 3 calls = 369 600 schedules), replays every schedule twice and requires identical observations".into();
    let mut total_sched = 0u64;
    let mut distinct_out = std::collections::HashSet::new();
    let mut per = Vec::new();
    for sc in chosen {
        let want: Vec<String> = expected(sc).iter().map(|v| vref::hex(v)).collect();
        let scheds = schedules(sc.progs.len(), sc.steps);
        let t0 = std::time::Instant::now();
        for mode in ["threads", "single"] {
            let res: Vec<(usize, Result<Vec<String>, String>, Option<Result<Vec<String>, String>>)> = scheds
                .par_iter()
                .enumerate()
                .map(|(i, s)| {
                    let a = run_child(&exe, &["c18-child", sc.name, s, mode]);
                    let b = if th { Some(run_child(&exe, &["c18-child", sc.name, s, mode])) } else { None };
                    (i, a, b)
                })
                .collect();
            for (i, a, b) in res {
                rep.evaluations += 1;
                total_sched += 1;
                let replay = json!({"engine":"S","check":"C18","scenario":sc.name,"schedule":scheds[i],"mode":mode});
                if i % 577 == 5 {
                    rep.sample(replay.clone());
                }
                if let Some(b) = &b {
                    if b.as_ref().ok() != a.as_ref().ok() {
                        rep.violation("c18:machinery:replay-divergence", format!("schedule {} of {} gave different observations on replay", scheds[i], sc.name), replay.clone());
                    }
                }
                match a {
                    Err(e) => rep.violation(&format!("c18:{}:{}:crash", sc.name, mode), format!("schedule {}: {}", scheds[i], e), replay),
                    Ok(lines) => {
                        distinct_out.insert(lines.join("|"));
                        for (t, w) in want.iter().enumerate() {
                            if lines.get(t) != Some(w) {
                                rep.violation(&format!("c18:{}:{}:thread{}-differs", sc.name, mode, t), format!("schedule {} ({}): thread {} ({:?}) produced {} want {}", scheds[i], mode, t, sc.progs[t], lines.get(t).map(|s| &s[..s.len().min(32)]).unwrap_or("-"), &w[..w.len().min(32)]), replay.clone());
                            }
                        }
                    }
                }
            }
        }
        per.push(json!({"scenario": sc.name, "threads": sc.progs.len(), "calls_per_thread": sc.steps, "schedules": scheds.len(), "modes": 2, "wall_s": t0.elapsed().as_secs_f64()}));
    }
    // sampling supplement: free-running threads, never counted as coverage
    let runs = if th { 200 } else { 40 };
    let repeat = if th { 1000 } else { 300 };
    let mut free_fail = 0u64;
    let mut free_results = 0u64;
    for sc in scs.iter() {
        let copies = 4;
        let res: Vec<Result<Vec<String>, String>> = (0..runs).into_par_iter().map(|_| run_child(&exe, &["c18-free", sc.name, &copies.to_string(), &repeat.to_string()])).collect();
        for r in res {
            match r {
                Err(e) => { free_fail += 1; rep.violation(&format!("c18:{}:free-running:crash", sc.name), e, json!({"scenario": sc.name, "mode": "free-running"})); }
                Ok(lines) => {
                    let f: Vec<u64> = lines.get(0).map(|l| l.split(' ').filter_map(|x| x.parse().ok()).collect()).unwrap_or_default();
                    free_results += f.get(0).copied().unwrap_or(0);
                    let bad = f.get(1).copied().unwrap_or(1);
                    if bad != 0 {
                        free_fail += bad;
                        rep.violation(&format!("c18:{}:free-running:thread-differs", sc.name), format!("{} of {} results computed by free-running threads differ from the reference", bad, f.get(0).copied().unwrap_or(0)), json!({"scenario": sc.name, "mode": "free-running", "copies": copies, "repeat": repeat}));
                    }
                }
            }
        }
    }
    rep.set("sampled_supplement", json!({"kind": "SAMPLING (not coverage)", "cold_processes": runs * scs.len(), "os_threads_each": "4 copies of every program of the scenario, released by a barrier, each repeated", "repeat": repeat, "results_compared": free_results, "failures": free_fail}));
    rep.set("states", json!(total_sched));
    rep.set("transitions", json!(rep.evaluations));
    rep.set("traces_validated_against_impl", json!(total_sched));
    rep.set("per_scenario", json!(per));
    rep.set("distinct_observation_vectors", json!(distinct_out.len()));
    rep.nontrivial = total_sched;
    rep.assumptions.push("schedules are enumerated at API-call granularity; pre-emption inside std::sync::Once / std_detect's CPUID cache / a compression call is outside what a call-level scheduler can produce (DESIGN.md section 10)".into());
    rep
}

pub fn replay(v: &serde_json::Value) -> Option<bool> {
    let scn = v["scenario"].as_str()?;
    let sc = scenarios().into_iter().find(|s| s.name == scn)?;
    let exe = std::env::current_exe().ok()?;
    let want: Vec<String> = expected(&sc).iter().map(|x| vref::hex(x)).collect();
    if v["mode"].as_str()? == "free-running" {
        println!("replay C18 {}: free-running supplement (sampling) - 20 cold processes", scn);
        let mut bad = 0;
        for _ in 0..20 {
            if let Ok(l) = run_child(&exe, &["c18-free", scn, "4", "300"]) {
                if l.get(0).map(|s| !s.ends_with(" 0")).unwrap_or(true) {
                    bad += 1;
                }
            } else {
                bad += 1;
            }
        }
        println!("  {} of 20 processes produced a wrong result", bad);
        return Some(bad == 0);
    }
    let sched = v["schedule"].as_str()?;
    let mode = v["mode"].as_str()?;
    println!("replay C18 {} schedule {} ({})", scn, sched, mode);
    match run_child(&exe, &["c18-child", scn, sched, mode]) {
        Err(e) => { println!("  child failed: {}", e); Some(false) }
        Ok(lines) => {
            let mut ok = true;
            for (t, w) in want.iter().enumerate() {
                let g = lines.get(t).cloned().unwrap_or_default();
                println!("  thread {} ({:?}): {} {}", t, sc.progs[t], &g[..g.len().min(24)], if &g == w { "ok" } else { "DIFFERS" });
                ok &= &g == w;
            }
            Some(ok)
        }
    }
}
