//! C12 / C13: every operation the Machine trait bounds require, on every backend, against its
//! scalar meaning. Vectors are modelled as little-endian u32 word lists read back through
//! Into<vecNNN_storage> + split128 + Into<[u32;4]>.
#![allow(clippy::type_complexity)]
use crate::report::*;
use ppv_lite86::*;
use serde_json::json;

pub struct Cx<'a> {
    pub rep: &'a mut Report,
    pub backend: &'static str,
    pub c12: bool,
    pub c13: bool,
    pub thorough: bool,
    pub triples: Vec<String>,
}

// ---------------------------------------------------------------------------------------------
// storage <-> words
fn s128(w: &[u32]) -> vec128_storage {
    vec128_storage::from([w[0], w[1], w[2], w[3]])
}
fn w128(s: vec128_storage) -> Vec<u32> {
    let a: [u32; 4] = s.into();
    a.to_vec()
}
fn s256(w: &[u32]) -> vec256_storage {
    vec256_storage::new128([s128(&w[0..4]), s128(&w[4..8])])
}
fn w256(s: vec256_storage) -> Vec<u32> {
    let [a, b] = s.split128();
    let mut v = w128(a);
    v.extend(w128(b));
    v
}
fn s512(w: &[u32]) -> vec512_storage {
    vec512_storage::new128([s128(&w[0..4]), s128(&w[4..8]), s128(&w[8..12]), s128(&w[12..16])])
}
fn w512(s: vec512_storage) -> Vec<u32> {
    let mut v = Vec::new();
    for x in s.split128() {
        v.extend(w128(x));
    }
    v
}

pub struct Io<V> {
    pub from: Box<dyn Fn(&[u32]) -> V>,
    pub to: Box<dyn Fn(V) -> Vec<u32>>,
    pub nwords: usize, // number of u32 words
    pub wbits: usize,  // scalar word width of the type
    pub tname: &'static str,
}
fn io128<M: Machine + 'static, V: Store<vec128_storage> + Into<vec128_storage> + 'static>(m: M, wbits: usize, tname: &'static str) -> Io<V> {
    Io { from: Box::new(move |w| m.unpack(s128(w))), to: Box::new(|v: V| w128(v.into())), nwords: 4, wbits, tname }
}
fn io256<M: Machine + 'static, V: Store<vec256_storage> + Into<vec256_storage> + 'static>(m: M, wbits: usize, tname: &'static str) -> Io<V> {
    Io { from: Box::new(move |w| m.unpack(s256(w))), to: Box::new(|v: V| w256(v.into())), nwords: 8, wbits, tname }
}
fn io512<M: Machine + 'static, V: Store<vec512_storage> + Into<vec512_storage> + 'static>(m: M, wbits: usize, tname: &'static str) -> Io<V> {
    Io { from: Box::new(move |w| m.unpack(s512(w))), to: Box::new(|v: V| w512(v.into())), nwords: 16, wbits, tname }
}

// ---------------------------------------------------------------------------------------------
// scalar model on word lists
fn split(words: &[u32], wbits: usize) -> Vec<u128> {
    let k = wbits / 32;
    words.chunks(k).map(|c| c.iter().enumerate().fold(0u128, |a, (i, x)| a | ((*x as u128) << (32 * i)))).collect()
}
fn join(vals: &[u128], wbits: usize) -> Vec<u32> {
    let k = wbits / 32;
    let mut out = Vec::new();
    for v in vals {
        for i in 0..k {
            out.push((v >> (32 * i)) as u32);
        }
    }
    out
}
fn mask(wbits: usize) -> u128 {
    if wbits == 128 { u128::MAX } else { (1u128 << wbits) - 1 }
}
fn map1(w: &[u32], wbits: usize, f: impl Fn(u128) -> u128) -> Vec<u32> {
    join(&split(w, wbits).iter().map(|x| f(*x) & mask(wbits)).collect::<Vec<_>>(), wbits)
}
fn map2(a: &[u32], b: &[u32], wbits: usize, f: impl Fn(u128, u128) -> u128) -> Vec<u32> {
    let (x, y) = (split(a, wbits), split(b, wbits));
    join(&x.iter().zip(y.iter()).map(|(p, q)| f(*p, *q) & mask(wbits)).collect::<Vec<_>>(), wbits)
}
fn rotr(x: u128, n: u32, wbits: usize) -> u128 {
    let n = n as usize % wbits;
    if n == 0 { x } else { ((x >> n) | (x << (wbits - n))) & mask(wbits) }
}
fn bswap_w(x: u128, wbits: usize) -> u128 {
    let nb = wbits / 8;
    let mut r = 0u128;
    for i in 0..nb {
        r |= ((x >> (8 * i)) & 0xff) << (8 * (nb - 1 - i));
    }
    r
}
/// exchange adjacent n-bit groups inside every 128-bit lane
fn swapn(w: &[u32], n: usize) -> Vec<u32> {
    map1(w, 128, |x| {
        let mut m = 0u128;
        let mut i = 0;
        while i < 128 {
            m |= (if n == 128 { u128::MAX } else { (1u128 << n) - 1 }) << i;
            i += 2 * n;
        }
        ((x & m) << n) | ((x >> n) & m)
    })
}
/// name digits give the destination of each source word: result[d[i]] = x[i]
fn shuffle_words(w: &[u32], unit_bits: usize, group_words: usize, d: [usize; 4]) -> Vec<u32> {
    let vals = split(w, unit_bits);
    let mut out = vals.clone();
    for g in (0..vals.len()).step_by(group_words) {
        for i in 0..4 {
            out[g + d[i]] = vals[g + i];
        }
    }
    join(&out, unit_bits)
}

// ---------------------------------------------------------------------------------------------
// operand alphabets
pub fn alphabet(wbits: usize) -> Vec<u128> {
    let m = mask(wbits);
    let mut v = vec![0, 1, 2, m, m - 1, 1u128 << (wbits - 1), (1u128 << (wbits - 1)) - 1, 0x5555_5555_5555_5555_5555_5555_5555_5555 & m, 0xaaaa_aaaa_aaaa_aaaa_aaaa_aaaa_aaaa_aaaa & m, 0x0123_4567_89ab_cdef_fedc_ba98_7654_3210 & m, 0x0011_2233_4455_6677_8899_aabb_ccdd_eeff & m];
    for b in 0..wbits {
        v.push(1u128 << b);
        v.push(m ^ (1u128 << b));
    }
    v
}
fn filler(i: usize) -> u32 {
    0x9e37_79b9u32.wrapping_mul(i as u32 + 1) ^ 0x0f1e_2d3c
}
/// every alphabet value in every word position, the other words holding pairwise distinct fillers
pub fn unary_inputs(nwords: usize, wbits: usize) -> Vec<Vec<u32>> {
    let k = wbits / 32;
    let mut out = Vec::new();
    for pos in 0..nwords / k {
        for a in alphabet(wbits) {
            let mut w: Vec<u32> = (0..nwords).map(filler).collect();
            for i in 0..k {
                w[pos * k + i] = (a >> (32 * i)) as u32;
            }
            out.push(w);
        }
    }
    // all positions at once
    for a in alphabet(wbits) {
        let vals = vec![a; nwords / k];
        out.push(join(&vals, wbits));
    }
    out
}
pub fn binary_inputs(nwords: usize, wbits: usize, thorough: bool) -> Vec<(Vec<u32>, Vec<u32>)> {
    let k = wbits / 32;
    let al = alphabet(wbits);
    let mut out = Vec::new();
    let npos = nwords / k;
    for pos in 0..npos {
        // full product in one word position at a time (thorough); a band around the diagonal otherwise
        for (i, a) in al.iter().enumerate() {
            for (j, b) in al.iter().enumerate() {
                if !thorough && !(i < 11 || j < 11 || i == j || (i + 1 == j) || (i == j + 1)) {
                    continue;
                }
                let mut x: Vec<u32> = (0..nwords).map(filler).collect();
                let mut y: Vec<u32> = (0..nwords).map(|t| filler(t + 100)).collect();
                for t in 0..k {
                    x[pos * k + t] = (a >> (32 * t)) as u32;
                    y[pos * k + t] = (b >> (32 * t)) as u32;
                }
                out.push((x, y));
            }
        }
    }
    for a in &al {
        for b in al.iter().take(11) {
            out.push((join(&vec![*a; npos], wbits), join(&vec![*b; npos], wbits)));
        }
    }
    out
}

// ---------------------------------------------------------------------------------------------
type U1<V> = (&'static str, Box<dyn Fn(V) -> V>, Box<dyn Fn(&[u32]) -> Vec<u32>>);
type U2<V> = (&'static str, Box<dyn Fn(V, V) -> V>, Box<dyn Fn(&[u32], &[u32]) -> Vec<u32>>);

fn hexw(w: &[u32]) -> String {
    w.iter().map(|x| format!("{:08x}", x)).collect::<Vec<_>>().join(" ")
}

fn check_unary<V: Copy + 'static>(cx: &mut Cx, io: &Io<V>, ops: &[U1<V>], prop: &str) {
    let inputs = unary_inputs(io.nwords, io.wbits);
    for (name, f, model) in ops {
        cx.triples.push(format!("{}:{}:{}", cx.backend, io.tname, name));
        if cx.triples.len() % 131 == 7 {
            let w = &inputs[inputs.len() / 2];
            cx.rep.sample(json!({"backend": cx.backend, "type": io.tname, "op": name, "input_words_le": hexw(w), "scalar_meaning": hexw(&model(w))}));
        }
        let r = guarded(|| {
            for w in &inputs {
                let got = (io.to)(f((io.from)(w)));
                let want = model(w);
                if got != want {
                    return Some((w.clone(), got, want));
                }
            }
            None
        });
        cx.rep.evaluations += inputs.len() as u64;
        cx.rep.nontrivial += inputs.len() as u64;
        let sig = format!("{}:{}:{}:{}", prop, cx.backend, io.tname, name);
        let replay = |w: Option<&Vec<u32>>| json!({"engine":"E","check":prop.to_uppercase(),"backend":cx.backend,"type":io.tname,"op":name,"input": w.map(|w| hexw(w))});
        match r {
            Err(p) => cx.rep.violation(&format!("{}:panic", sig), format!("{}::{} on backend {} panicked: {}", io.tname, name, cx.backend, p), replay(None)),
            Ok(Some((w, got, want))) => cx.rep.violation(&sig, format!("{}::{} on backend {}: input [{}] -> [{}], scalar meaning [{}] (little-endian u32 words)", io.tname, name, cx.backend, hexw(&w), hexw(&got), hexw(&want)), replay(Some(&w))),
            Ok(None) => {}
        }
    }
    // depth-2 closure: every ordered pair of unary ops on a seed subset
    let seeds: Vec<&Vec<u32>> = inputs.iter().step_by(if cx.thorough { 3 } else { 17 }).collect();
    for (n1, f1, m1) in ops {
        for (n2, f2, m2) in ops {
            let r = guarded(|| {
                for w in &seeds {
                    let got = (io.to)(f2(f1((io.from)(w))));
                    let want = m2(&m1(w));
                    if got != want {
                        return Some(((*w).clone(), got, want));
                    }
                }
                None
            });
            cx.rep.evaluations += seeds.len() as u64;
            if let Ok(Some((w, got, want))) = r {
                // only report pairs whose parts are individually right (otherwise the unary finding says it all)
                let single_ok = |f: &Box<dyn Fn(V) -> V>, m: &Box<dyn Fn(&[u32]) -> Vec<u32>>| guarded(|| seeds.iter().all(|w| (io.to)(f((io.from)(w))) == m(w))).unwrap_or(false);
                if single_ok(f1, m1) && single_ok(f2, m2) {
                    cx.rep.violation(&format!("{}:{}:{}:{}-then-{}", prop, cx.backend, io.tname, n1, n2), format!("{} then {} on [{}] gives [{}] want [{}]", n1, n2, hexw(&w), hexw(&got), hexw(&want)), json!({"backend":cx.backend,"type":io.tname,"ops":[n1,n2],"input":hexw(&w)}));
                }
            }
        }
    }
}

fn check_binary<V: Copy + 'static>(cx: &mut Cx, io: &Io<V>, ops: &[U2<V>], prop: &str) {
    let inputs = binary_inputs(io.nwords, io.wbits, cx.thorough);
    for (name, f, model) in ops {
        cx.triples.push(format!("{}:{}:{}", cx.backend, io.tname, name));
        let r = guarded(|| {
            for (a, b) in &inputs {
                let got = (io.to)(f((io.from)(a), (io.from)(b)));
                let want = model(a, b);
                if got != want {
                    return Some((a.clone(), b.clone(), got, want));
                }
            }
            None
        });
        cx.rep.evaluations += inputs.len() as u64;
        cx.rep.nontrivial += inputs.len() as u64;
        let sig = format!("{}:{}:{}:{}", prop, cx.backend, io.tname, name);
        match r {
            Err(p) => cx.rep.violation(&format!("{}:panic", sig), format!("{}::{} on backend {} panicked: {}", io.tname, name, cx.backend, p), json!({"backend":cx.backend,"type":io.tname,"op":name})),
            Ok(Some((a, b, got, want))) => cx.rep.violation(&sig, format!("{}::{} on backend {}: [{}] , [{}] -> [{}], scalar meaning [{}]", io.tname, name, cx.backend, hexw(&a), hexw(&b), hexw(&got), hexw(&want)), json!({"engine":"E","check":prop.to_uppercase(),"backend":cx.backend,"type":io.tname,"op":name,"a":hexw(&a),"b":hexw(&b)})),
            Ok(None) => {}
        }
    }
}

fn bitops0<V: BitOps0 + 'static>(wbits: usize) -> (Vec<U1<V>>, Vec<U2<V>>) {
    let _ = wbits;
    let u: Vec<U1<V>> = vec![("not", Box::new(|v: V| !v), Box::new(|w: &[u32]| w.iter().map(|x| !x).collect()))];
    let b: Vec<U2<V>> = vec![
        ("bitand", Box::new(|a: V, b: V| a & b), Box::new(|a: &[u32], b: &[u32]| a.iter().zip(b).map(|(x, y)| x & y).collect())),
        ("bitor", Box::new(|a: V, b: V| a | b), Box::new(|a: &[u32], b: &[u32]| a.iter().zip(b).map(|(x, y)| x | y).collect())),
        ("bitxor", Box::new(|a: V, b: V| a ^ b), Box::new(|a: &[u32], b: &[u32]| a.iter().zip(b).map(|(x, y)| x ^ y).collect())),
        ("bitxor_assign", Box::new(|mut a: V, b: V| { a ^= b; a }), Box::new(|a: &[u32], b: &[u32]| a.iter().zip(b).map(|(x, y)| x ^ y).collect())),
        ("andnot", Box::new(|a: V, b: V| a.andnot(b)), Box::new(|a: &[u32], b: &[u32]| a.iter().zip(b).map(|(x, y)| !x & y).collect())),
    ];
    (u, b)
}
fn rot32<V: RotateEachWord32 + 'static>(wbits: usize) -> Vec<U1<V>> {
    macro_rules! r { ($name:expr, $m:ident, $n:expr) => { ($name, Box::new(|v: V| v.$m()) as Box<dyn Fn(V) -> V>, Box::new(move |w: &[u32]| map1(w, wbits, |x| rotr(x, $n, wbits))) as Box<dyn Fn(&[u32]) -> Vec<u32>>) }; }
    vec![
        r!("rotate_each_word_right7", rotate_each_word_right7, 7),
        r!("rotate_each_word_right8", rotate_each_word_right8, 8),
        r!("rotate_each_word_right11", rotate_each_word_right11, 11),
        r!("rotate_each_word_right12", rotate_each_word_right12, 12),
        r!("rotate_each_word_right16", rotate_each_word_right16, 16),
        r!("rotate_each_word_right20", rotate_each_word_right20, 20),
        r!("rotate_each_word_right24", rotate_each_word_right24, 24),
        r!("rotate_each_word_right25", rotate_each_word_right25, 25),
    ]
}
fn rot64<V: RotateEachWord64 + 'static>(wbits: usize) -> Vec<U1<V>> {
    vec![("rotate_each_word_right32", Box::new(|v: V| v.rotate_each_word_right32()), Box::new(move |w: &[u32]| map1(w, wbits, |x| rotr(x, 32, wbits))))]
}
fn arith<V: ArithOps + 'static>(wbits: usize) -> (Vec<U1<V>>, Vec<U2<V>>) {
    let u: Vec<U1<V>> = vec![("bswap", Box::new(|v: V| v.bswap()), Box::new(move |w: &[u32]| map1(w, wbits, |x| bswap_w(x, wbits))))];
    let b: Vec<U2<V>> = vec![
        ("add", Box::new(|a: V, b: V| a + b), Box::new(move |a: &[u32], b: &[u32]| map2(a, b, wbits, |x, y| x.wrapping_add(y)))),
        ("add_assign", Box::new(|mut a: V, b: V| { a += b; a }), Box::new(move |a: &[u32], b: &[u32]| map2(a, b, wbits, |x, y| x.wrapping_add(y)))),
    ];
    (u, b)
}
fn bswap_only<V: BSwap + 'static>(wbits: usize) -> Vec<U1<V>> {
    vec![("bswap", Box::new(|v: V| v.bswap()), Box::new(move |w: &[u32]| map1(w, wbits, |x| bswap_w(x, wbits))))]
}
fn words4<V: Words4 + 'static>(wbits: usize) -> Vec<U1<V>> {
    vec![
        ("shuffle1230", Box::new(|v: V| v.shuffle1230()), Box::new(move |w: &[u32]| shuffle_words(w, wbits, 4, [1, 2, 3, 0]))),
        ("shuffle2301", Box::new(|v: V| v.shuffle2301()), Box::new(move |w: &[u32]| shuffle_words(w, wbits, 4, [2, 3, 0, 1]))),
        ("shuffle3012", Box::new(|v: V| v.shuffle3012()), Box::new(move |w: &[u32]| shuffle_words(w, wbits, 4, [3, 0, 1, 2]))),
    ]
}
fn lanewords4<V: LaneWords4 + 'static>() -> Vec<U1<V>> {
    vec![
        ("shuffle_lane_words1230", Box::new(|v: V| v.shuffle_lane_words1230()), Box::new(|w: &[u32]| shuffle_words(w, 32, 4, [1, 2, 3, 0]))),
        ("shuffle_lane_words2301", Box::new(|v: V| v.shuffle_lane_words2301()), Box::new(|w: &[u32]| shuffle_words(w, 32, 4, [2, 3, 0, 1]))),
        ("shuffle_lane_words3012", Box::new(|v: V| v.shuffle_lane_words3012()), Box::new(|w: &[u32]| shuffle_words(w, 32, 4, [3, 0, 1, 2]))),
    ]
}
fn swap64<V: Swap64 + 'static>() -> Vec<U1<V>> {
    macro_rules! s { ($name:expr, $m:ident, $n:expr) => { ($name, Box::new(|v: V| v.$m()) as Box<dyn Fn(V) -> V>, Box::new(|w: &[u32]| swapn(w, $n)) as Box<dyn Fn(&[u32]) -> Vec<u32>>) }; }
    vec![s!("swap1", swap1, 1), s!("swap2", swap2, 2), s!("swap4", swap4, 4), s!("swap8", swap8, 8), s!("swap16", swap16, 16), s!("swap32", swap32, 32), s!("swap64", swap64, 64)]
}

/// extra operations reachable only on concrete types (u128x1 bswap is demanded by the Machine
/// impl's where-clauses, not by the u128x1 trait)
pub trait MachExt: Machine {
    fn bswap128(v: Self::u128x1) -> Self::u128x1;
    /// arithmetic a backend offers on its 128-bit-word types although the traits do not ask for it
    /// (only the portable backend does; harness feature `simd_extras`)
    fn extra_c12(_cx: &mut Cx, _m: Self) {}
}

// ---------------------------------------------------------------------------------------------
// C13 helpers
fn data_inputs(nwords: usize) -> Vec<Vec<u32>> {
    let mut v: Vec<Vec<u32>> = Vec::new();
    v.push((0..nwords).map(filler).collect());
    v.push(vec![0; nwords]);
    v.push(vec![u32::MAX; nwords]);
    v.push((0..nwords as u32).map(|i| 0x0101_0101u32.wrapping_mul(4 * i) + 0x0302_0100).collect()); // bytes 0,1,2,...
    for b in 0..32 * nwords {
        let mut w = vec![0u32; nwords];
        w[b / 32] = 1 << (b % 32);
        v.push(w);
    }
    v
}
fn words_to_bytes(w: &[u32]) -> Vec<u8> {
    w.iter().flat_map(|x| x.to_le_bytes()).collect()
}

fn mv(cx: &mut Cx, tname: &str, what: &str, r: Result<Option<String>, String>, n: usize) {
    cx.triples.push(format!("{}:{}:{}", cx.backend, tname, what));
    if cx.triples.len() % 41 == 3 {
        cx.rep.sample(json!({"backend": cx.backend, "type": tname, "op": what, "inputs": n}));
    }
    cx.rep.evaluations += n as u64;
    cx.rep.nontrivial += n as u64;
    let sig = format!("c13:{}:{}:{}", cx.backend, tname, what);
    match r {
        Err(p) => cx.rep.violation(&format!("{}:panic", sig), format!("{}::{} on backend {} panicked: {}", tname, what, cx.backend, p), json!({"backend":cx.backend,"type":tname,"op":what})),
        Ok(Some(d)) => cx.rep.violation(&sig, format!("{}::{} on backend {}: {}", tname, what, cx.backend, d), json!({"engine":"E","check":"C13","backend":cx.backend,"type":tname,"op":what,"detail":d})),
        Ok(None) => {}
    }
}

fn storebytes<V: StoreBytes + Copy + 'static, M: Machine>(cx: &mut Cx, m: M, io: &Io<V>) {
    let ins = data_inputs(io.nwords);
    let wb = io.wbits / 8;
    let nb = io.nwords * 4;
    // read_le: bytes are the little-endian image of the words
    let r = guarded(|| {
        for w in &ins {
            let bytes = words_to_bytes(w);
            let v: V = m.read_le(&bytes);
            if (io.to)(v) != *w {
                return Some(format!("read_le({}) -> [{}]", vref::hex(&bytes), hexw(&(io.to)(v))));
            }
            let mut out = vec![0u8; nb];
            (io.from)(w).write_le(&mut out);
            if out != bytes {
                return Some(format!("write_le([{}]) -> {}", hexw(w), vref::hex(&out)));
            }
            // big-endian: each scalar word byte-reversed, word order kept
            let mut be = bytes.clone();
            for c in be.chunks_mut(wb) {
                c.reverse();
            }
            let v: V = m.read_be(&be);
            if (io.to)(v) != *w {
                return Some(format!("read_be({}) -> [{}] want [{}]", vref::hex(&be), hexw(&(io.to)(v)), hexw(w)));
            }
            let mut out = vec![0u8; nb];
            (io.from)(w).write_be(&mut out);
            if out != be {
                return Some(format!("write_be([{}]) -> {} want {}", hexw(w), vref::hex(&out), vref::hex(&be)));
            }
        }
        None
    });
    mv(cx, io.tname, "read_le/write_le/read_be/write_be", r, 4 * ins.len());
}

fn roundtrip<V: Copy + 'static>(cx: &mut Cx, io: &Io<V>) {
    let ins = data_inputs(io.nwords);
    let r = guarded(|| {
        for w in &ins {
            let got = (io.to)((io.from)(w));
            if got != *w {
                return Some(format!("unpack(into) of [{}] -> [{}]", hexw(w), hexw(&got)));
            }
        }
        None
    });
    mv(cx, io.tname, "unpack-into-roundtrip", r, ins.len());
}

/// lanes given as word lists
fn multilane<V: Copy + 'static, L>(cx: &mut Cx, io: &Io<V>, to_lanes: impl Fn(V) -> L, from_lanes: impl Fn(L) -> V, lanes_to_words: impl Fn(&L) -> Vec<u32>, words_to_lanes: impl Fn(&[u32]) -> L) {
    let ins = data_inputs(io.nwords);
    let r = guarded(|| {
        for w in &ins {
            let l = to_lanes((io.from)(w));
            if lanes_to_words(&l) != *w {
                return Some(format!("to_lanes([{}]) -> [{}]", hexw(w), hexw(&lanes_to_words(&l))));
            }
            let v = from_lanes(words_to_lanes(w));
            if (io.to)(v) != *w {
                return Some(format!("from_lanes([{}]) -> [{}]", hexw(w), hexw(&(io.to)(v))));
            }
        }
        None
    });
    mv(cx, io.tname, "to_lanes/from_lanes/vec", r, 2 * ins.len());
}

/// extract(i) / insert(x, i) for every index; elements given as word lists of `ew` u32 words
fn insext<V: Copy + 'static, E>(cx: &mut Cx, io: &Io<V>, n: u32, ew: usize, extract: impl Fn(V, u32) -> E, insert: impl Fn(V, E, u32) -> V, e_to_words: impl Fn(&E) -> Vec<u32>, words_to_e: impl Fn(&[u32]) -> E) {
    let ins = data_inputs(io.nwords);
    for i in 0..n {
        let r = guarded(|| {
            for w in &ins {
                let e = extract((io.from)(w), i);
                let want = &w[i as usize * ew..(i as usize + 1) * ew];
                if e_to_words(&e) != want {
                    return Some(format!("extract([{}], {}) -> [{}]", hexw(w), i, hexw(&e_to_words(&e))));
                }
                // insert every alphabet-like element value: reuse another input's first element
                for src in [&ins[0], &ins[2], &ins[3], &ins[(7 * (i as usize + 1)) % ins.len()]] {
                    let el = &src[0..ew];
                    let got = (io.to)(insert((io.from)(w), words_to_e(el), i));
                    let mut want = w.clone();
                    want[i as usize * ew..(i as usize + 1) * ew].copy_from_slice(el);
                    if got != want {
                        return Some(format!("insert([{}], [{}], {}) -> [{}] want [{}]", hexw(w), hexw(el), i, hexw(&got), hexw(&want)));
                    }
                }
            }
            None
        });
        mv(cx, io.tname, &format!("extract/insert[{}]", i), r, 5 * ins.len());
    }
}

// ---------------------------------------------------------------------------------------------
pub fn run_machine<M: MachExt + 'static>(cx: &mut Cx, m: M)
where
    M::u32x4: 'static,
    M::u64x2: 'static,
    M::u128x1: 'static,
    M::u32x4x2: 'static,
    M::u64x2x2: 'static,
    M::u64x4: 'static,
    M::u128x2: 'static,
    M::u32x4x4: 'static,
    M::u64x2x4: 'static,
    M::u128x4: 'static,
{
    let i_u32x4 = io128::<M, M::u32x4>(m, 32, "u32x4");
    let i_u64x2 = io128::<M, M::u64x2>(m, 64, "u64x2");
    let i_u128x1 = io128::<M, M::u128x1>(m, 128, "u128x1");
    let i_u32x4x2 = io256::<M, M::u32x4x2>(m, 32, "u32x4x2");
    let i_u64x2x2 = io256::<M, M::u64x2x2>(m, 64, "u64x2x2");
    let i_u64x4 = io256::<M, M::u64x4>(m, 64, "u64x4");
    let i_u128x2 = io256::<M, M::u128x2>(m, 128, "u128x2");
    let i_u32x4x4 = io512::<M, M::u32x4x4>(m, 32, "u32x4x4");
    let i_u64x2x4 = io512::<M, M::u64x2x4>(m, 64, "u64x2x4");
    let i_u128x4 = io512::<M, M::u128x4>(m, 128, "u128x4");

    if cx.c12 {
        macro_rules! t {
            ($io:expr, $ty:ty, $w:expr, [$($cap:ident),*]) => {{
                let mut un: Vec<U1<$ty>> = Vec::new();
                let mut bi: Vec<U2<$ty>> = Vec::new();
                $( t!(@cap $cap, $ty, $w, un, bi); )*
                check_unary(cx, &$io, &un, "c12");
                check_binary(cx, &$io, &bi, "c12");
            }};
            (@cap bit, $ty:ty, $w:expr, $un:ident, $bi:ident) => { let (u, b) = bitops0::<$ty>($w); $un.extend(u); $bi.extend(b); };
            (@cap r32, $ty:ty, $w:expr, $un:ident, $bi:ident) => { $un.extend(rot32::<$ty>($w)); };
            (@cap r64, $ty:ty, $w:expr, $un:ident, $bi:ident) => { $un.extend(rot64::<$ty>($w)); };
            (@cap arith, $ty:ty, $w:expr, $un:ident, $bi:ident) => { let (u, b) = arith::<$ty>($w); $un.extend(u); $bi.extend(b); };
            (@cap w4, $ty:ty, $w:expr, $un:ident, $bi:ident) => { $un.extend(words4::<$ty>($w)); };
            (@cap lw4, $ty:ty, $w:expr, $un:ident, $bi:ident) => { $un.extend(lanewords4::<$ty>()); };
            (@cap sw, $ty:ty, $w:expr, $un:ident, $bi:ident) => { $un.extend(swap64::<$ty>()); };
        }
        t!(i_u32x4, M::u32x4, 32, [bit, r32, arith, w4, lw4]);
        t!(i_u64x2, M::u64x2, 64, [bit, r32, r64, arith]);
        {
            let mut un: Vec<U1<M::u128x1>> = Vec::new();
            let (u, bi) = bitops0::<M::u128x1>(128);
            un.extend(u);
            un.extend(rot32::<M::u128x1>(128));
            un.extend(rot64::<M::u128x1>(128));
            un.extend(swap64::<M::u128x1>());
            un.push(("bswap", Box::new(|v| M::bswap128(v)), Box::new(|w: &[u32]| map1(w, 128, |x| bswap_w(x, 128)))));
            check_unary(cx, &i_u128x1, &un, "c12");
            check_binary(cx, &i_u128x1, &bi, "c12");
        }
        t!(i_u32x4x2, M::u32x4x2, 32, [bit, r32, arith]);
        t!(i_u64x2x2, M::u64x2x2, 64, [bit, r32, r64, arith]);
        t!(i_u64x4, M::u64x4, 64, [bit, r32, r64, arith, w4]);
        t!(i_u128x2, M::u128x2, 128, [bit, r32, r64, sw]);
        t!(i_u32x4x4, M::u32x4x4, 32, [bit, r32, arith, lw4]);
        t!(i_u64x2x4, M::u64x2x4, 64, [bit, r32, r64, arith]);
        t!(i_u128x4, M::u128x4, 128, [bit, r32, r64, sw]);
        M::extra_c12(cx, m);
    }
    if cx.c13 {
        // storage round trips
        roundtrip(cx, &i_u32x4);
        roundtrip(cx, &i_u64x2);
        roundtrip(cx, &i_u128x1);
        roundtrip(cx, &i_u32x4x2);
        roundtrip(cx, &i_u64x2x2);
        roundtrip(cx, &i_u64x4);
        roundtrip(cx, &i_u128x2);
        roundtrip(cx, &i_u32x4x4);
        roundtrip(cx, &i_u64x2x4);
        roundtrip(cx, &i_u128x4);
        // byte loads / stores
        storebytes(cx, m, &i_u32x4);
        storebytes(cx, m, &i_u32x4x2);
        storebytes(cx, m, &i_u64x2x2);
        storebytes(cx, m, &i_u64x4);
        storebytes(cx, m, &i_u32x4x4);
        // lanes
        let u64s = |w: &[u32]| -> Vec<u64> { split(w, 64).iter().map(|x| *x as u64).collect() };
        multilane(cx, &i_u32x4, |v| v.to_lanes(), |l| m.vec(l), |l: &[u32; 4]| l.to_vec(), |w| [w[0], w[1], w[2], w[3]]);
        multilane(cx, &i_u64x2, |v| v.to_lanes(), |l| m.vec(l), |l: &[u64; 2]| join(&[l[0] as u128, l[1] as u128], 64), |w| { let q = u64s(w); [q[0], q[1]] });
        multilane(cx, &i_u128x1, |v| v.to_lanes(), |l| m.vec(l), |l: &[u128; 1]| join(&[l[0]], 128), |w| [split(w, 128)[0]]);
        multilane(cx, &i_u64x4, |v| v.to_lanes(), |l| m.vec(l), |l: &[u64; 4]| join(&l.iter().map(|x| *x as u128).collect::<Vec<_>>(), 64), |w| { let q = u64s(w); [q[0], q[1], q[2], q[3]] });
        let f32x4 = |w: &[u32]| -> M::u32x4 { (i_u32x4.from)(w) };
        let f64x2 = |w: &[u32]| -> M::u64x2 { (i_u64x2.from)(w) };
        let f128 = |w: &[u32]| -> M::u128x1 { (i_u128x1.from)(w) };
        let t32x4 = |v: &M::u32x4| (i_u32x4.to)(*v);
        let t64x2 = |v: &M::u64x2| (i_u64x2.to)(*v);
        let t128 = |v: &M::u128x1| (i_u128x1.to)(*v);
        multilane(cx, &i_u32x4x2, |v| v.to_lanes(), |l| m.vec(l), |l: &[M::u32x4; 2]| l.iter().flat_map(|x| t32x4(x)).collect(), |w| [f32x4(&w[0..4]), f32x4(&w[4..8])]);
        multilane(cx, &i_u64x2x2, |v| v.to_lanes(), |l| m.vec(l), |l: &[M::u64x2; 2]| l.iter().flat_map(|x| t64x2(x)).collect(), |w| [f64x2(&w[0..4]), f64x2(&w[4..8])]);
        multilane(cx, &i_u128x2, |v| v.to_lanes(), |l| m.vec(l), |l: &[M::u128x1; 2]| l.iter().flat_map(|x| t128(x)).collect(), |w| [f128(&w[0..4]), f128(&w[4..8])]);
        multilane(cx, &i_u32x4x4, |v| v.to_lanes(), |l| m.vec(l), |l: &[M::u32x4; 4]| l.iter().flat_map(|x| t32x4(x)).collect(), |w| [f32x4(&w[0..4]), f32x4(&w[4..8]), f32x4(&w[8..12]), f32x4(&w[12..16])]);
        multilane(cx, &i_u64x2x4, |v| v.to_lanes(), |l| m.vec(l), |l: &[M::u64x2; 4]| l.iter().flat_map(|x| t64x2(x)).collect(), |w| [f64x2(&w[0..4]), f64x2(&w[4..8]), f64x2(&w[8..12]), f64x2(&w[12..16])]);
        multilane(cx, &i_u128x4, |v| v.to_lanes(), |l| m.vec(l), |l: &[M::u128x1; 4]| l.iter().flat_map(|x| t128(x)).collect(), |w| [f128(&w[0..4]), f128(&w[4..8]), f128(&w[8..12]), f128(&w[12..16])]);
        // insert / extract
        insext(cx, &i_u32x4, 4, 1, |v, i| v.extract(i), |v, e, i| v.insert(e, i), |e: &u32| vec![*e], |w| w[0]);
        insext(cx, &i_u64x2, 2, 2, |v, i| v.extract(i), |v, e, i| v.insert(e, i), |e: &u64| join(&[*e as u128], 64), |w| split(w, 64)[0] as u64);
        insext(cx, &i_u64x4, 4, 2, |v, i| v.extract(i), |v, e, i| v.insert(e, i), |e: &u64| join(&[*e as u128], 64), |w| split(w, 64)[0] as u64);
        insext(cx, &i_u32x4x2, 2, 4, |v, i| v.extract(i), |v, e, i| v.insert(e, i), |e: &M::u32x4| t32x4(e), |w| f32x4(w));
        insext(cx, &i_u64x2x2, 2, 4, |v, i| v.extract(i), |v, e, i| v.insert(e, i), |e: &M::u64x2| t64x2(e), |w| f64x2(w));
        insext(cx, &i_u128x2, 2, 4, |v, i| v.extract(i), |v, e, i| v.insert(e, i), |e: &M::u128x1| t128(e), |w| f128(w));
        insext(cx, &i_u32x4x4, 4, 4, |v, i| v.extract(i), |v, e, i| v.insert(e, i), |e: &M::u32x4| t32x4(e), |w| f32x4(w));
        insext(cx, &i_u64x2x4, 4, 4, |v, i| v.extract(i), |v, e, i| v.insert(e, i), |e: &M::u64x2| t64x2(e), |w| f64x2(w));
        insext(cx, &i_u128x4, 4, 4, |v, i| v.extract(i), |v, e, i| v.insert(e, i), |e: &M::u128x1| t128(e), |w| f128(w));
        // transpose4 and to_scalars on u32x4x4
        let ins = data_inputs(64);
        let r = guarded(|| {
            for w in &ins {
                let v: Vec<M::u32x4x4> = (0..4).map(|k| (i_u32x4x4.from)(&w[16 * k..16 * (k + 1)])).collect();
                let (a, b, c, d) = M::u32x4x4::transpose4(v[0], v[1], v[2], v[3]);
                let got: Vec<Vec<u32>> = [a, b, c, d].iter().map(|x| (i_u32x4x4.to)(*x)).collect();
                // input row k = vector k, column j = lane j; output row j, column k
                for j in 0..4 {
                    for k in 0..4 {
                        if got[j][4 * k..4 * k + 4] != w[16 * k + 4 * j..16 * k + 4 * j + 4] {
                            return Some(format!("transpose4: output vector {} lane {} is [{}], want lane {} of input vector {} = [{}]", j, k, hexw(&got[j][4 * k..4 * k + 4]), j, k, hexw(&w[16 * k + 4 * j..16 * k + 4 * j + 4])));
                        }
                    }
                }
            }
            None
        });
        mv(cx, "u32x4x4", "transpose4", r, ins.len());
        let ins = data_inputs(16);
        let r = guarded(|| {
            for w in &ins {
                let s = (i_u32x4x4.from)(w).to_scalars();
                if s[..] != w[..] {
                    return Some(format!("to_scalars([{}]) -> [{}]", hexw(w), hexw(&s)));
                }
            }
            None
        });
        mv(cx, "u32x4x4", "to_scalars", r, ins.len());
        storage_views(cx);
        storage_eq_default(cx);
    }
}

/// little-endian word packing of the storage types' array views (what exists depends on the backend family)
fn storage_views(cx: &mut Cx) {
    let ins = data_inputs(4);
    let r = guarded(|| {
        for w in &ins {
            let s = s128(w);
            let q: [u64; 2] = s.into();
            if join(&[q[0] as u128, q[1] as u128], 64) != *w {
                return Some(format!("vec128_storage [{}] as [u64;2] = {:x?}", hexw(w), q));
            }
            #[cfg(feature = "nosimd")]
            {
                let s2 = vec128_storage::from(q);
                if w128(s2) != *w {
                    return Some(format!("vec128_storage::from([u64;2]) of {:x?} -> [{}]", q, hexw(&w128(s2))));
                }
                if s2 != s {
                    return Some("vec128_storage == disagrees".to_string());
                }
            }
            #[cfg(not(feature = "nosimd"))]
            {
                let o: [u128; 1] = s.into();
                if join(&[o[0]], 128) != *w {
                    return Some(format!("vec128_storage [{}] as [u128;1] = {:x?}", hexw(w), o));
                }
            }
        }
        None
    });
    mv(cx, "vec128_storage", "array-views", r, ins.len());
    let ins = data_inputs(8);
    let r = guarded(|| {
        for w in &ins {
            let s = s256(w);
            let q: [u64; 4] = s.into();
            if join(&q.iter().map(|x| *x as u128).collect::<Vec<_>>(), 64) != *w {
                return Some(format!("vec256_storage [{}] as [u64;4] = {:x?}", hexw(w), q));
            }
            let s2 = vec256_storage::from(q);
            if w256(s2) != *w || s2 != s {
                return Some(format!("vec256_storage::from([u64;4]) of {:x?} -> [{}]", q, hexw(&w256(s2))));
            }
            #[cfg(not(feature = "nosimd"))]
            {
                let d: [u32; 8] = s.into();
                let o: [u128; 2] = s.into();
                if d[..] != w[..] || join(&o, 128) != *w {
                    return Some(format!("vec256_storage [{}] as [u32;8] = {:x?}, as [u128;2] = {:x?}", hexw(w), d, o));
                }
            }
        }
        None
    });
    mv(cx, "vec256_storage", "array-views", r, ins.len());
    #[cfg(not(feature = "nosimd"))]
    {
        let ins = data_inputs(16);
        let r = guarded(|| {
            for w in &ins {
                let s = s512(w);
                let d: [u32; 16] = s.into();
                let q: [u64; 8] = s.into();
                let o: [u128; 4] = s.into();
                if d[..] != w[..] || join(&q.iter().map(|x| *x as u128).collect::<Vec<_>>(), 64) != *w || join(&o, 128) != *w {
                    return Some(format!("vec512_storage [{}] views: u32 {:x?} u64 {:x?} u128 {:x?}", hexw(w), d, q, o));
                }
            }
            None
        });
        mv(cx, "vec512_storage", "array-views", r, ins.len());
    }
}

/// Default and == of the storage types (both backend families define them): default is all-zero,
/// two storages are equal iff every word is (checked on every one-hot difference in every bit position)
fn storage_eq_default(cx: &mut Cx) {
    macro_rules! t {
        ($name:expr, $n:expr, $s:ident, $w:ident, $ty:ty) => {{
            let ins = data_inputs($n);
            let r = guarded(|| {
                if $w(<$ty>::default()) != vec![0u32; $n] {
                    return Some(format!("{}::default() is not all-zero: [{}]", $name, hexw(&$w(<$ty>::default()))));
                }
                let zero = $s(&vec![0u32; $n]);
                if !(zero == <$ty>::default()) {
                    return Some(format!("{}::default() != the all-zero value", $name));
                }
                for (i, w) in ins.iter().enumerate() {
                    let (a, b) = ($s(w), $s(w));
                    if !(a == b) || a != b {
                        return Some(format!("{} [{}] is not equal to itself", $name, hexw(w)));
                    }
                    let is_zero = w.iter().all(|x| *x == 0);
                    if (a == zero) != is_zero {
                        return Some(format!("{} [{}] == zero gives {}", $name, hexw(w), a == zero));
                    }
                    // against the filler vector with this input's bits flipped in: differs in exactly these bits
                    let base = &ins[0];
                    let x: Vec<u32> = base.iter().zip(w.iter()).map(|(p, q)| p ^ q).collect();
                    if ($s(&x) == $s(base)) != is_zero {
                        return Some(format!("{} [{}] == [{}] gives {} (input {})", $name, hexw(&x), hexw(base), $s(&x) == $s(base), i));
                    }
                }
                None
            });
            mv(cx, $name, "default-and-eq", r, 3 * ins.len());
        }};
    }
    t!("vec128_storage", 4, s128, w128, vec128_storage);
    t!("vec256_storage", 8, s256, w256, vec256_storage);
    t!("vec512_storage", 16, s512, w512, vec512_storage);
    #[cfg(not(feature = "nosimd"))]
    {
        let ins = data_inputs(4);
        let r = guarded(|| {
            for w in &ins {
                let s = s128(w);
                let v: &[u32; 4] = (&s).into();
                if v[..] != w[..] {
                    return Some(format!("&vec128_storage [{}] as &[u32;4] = {:x?}", hexw(w), v));
                }
                let t: vec128_storage = unsafe { <vec128_storage as Store<vec128_storage>>::unpack(s) };
                if w128(t) != *w {
                    return Some(format!("Store::unpack on vec128_storage [{}] -> [{}]", hexw(w), hexw(&w128(t))));
                }
            }
            None
        });
        mv(cx, "vec128_storage", "ref-view-and-identity-unpack", r, 2 * ins.len());
    }
}

/// what the x86 vector types offer beyond the Machine trait vocabulary (harness feature `simd_extras`,
/// dropped by the driver if these impls disappear): reinterpreting conversions u128x1 -> u32x4 / u64x2
/// and their x2 / x4 forms (little-endian word packing), ==, Default, UnsafeFrom<[word; n]>
#[cfg(all(not(feature = "nosimd"), feature = "simd_extras"))]
macro_rules! x86_extras {
    ($cx:expr, $m:expr, $M:ty) => {{
        let cx: &mut Cx = $cx;
        let m: $M = $m;
        type V32 = <$M as Machine>::u32x4;
        type V64 = <$M as Machine>::u64x2;
        type V128 = <$M as Machine>::u128x1;
        let ins = data_inputs(4);
        let r = guarded(|| {
            for w in &ins {
                let v: V128 = m.unpack(s128(w));
                let a: V32 = v.into();
                let b: V64 = v.into();
                if w128(a.into()) != *w || w128(b.into()) != *w {
                    return Some(format!("u128x1 [{}] into u32x4 = [{}], into u64x2 = [{}]", hexw(w), hexw(&w128(a.into())), hexw(&w128(b.into()))));
                }
            }
            None
        });
        mv(cx, "u128x1", "into-u32x4-u64x2", r, 2 * ins.len());
        let r = guarded(|| {
            let base = &ins[0];
            let zero32: V32 = m.unpack(s128(&[0; 4]));
            let zero64: V64 = m.unpack(s128(&[0; 4]));
            if w128(V32::default().into()) != vec![0u32; 4] || w128(V64::default().into()) != vec![0u32; 4] || w128(V128::default().into()) != vec![0u32; 4] {
                return Some("Default of a 128-bit vector type is not all-zero".to_string());
            }
            for w in &ins {
                let is_zero = w.iter().all(|x| *x == 0);
                let x: Vec<u32> = base.iter().zip(w.iter()).map(|(p, q)| p ^ q).collect();
                let (a32, b32, c32): (V32, V32, V32) = (m.unpack(s128(w)), m.unpack(s128(&x)), m.unpack(s128(base)));
                let (a64, b64, c64): (V64, V64, V64) = (m.unpack(s128(w)), m.unpack(s128(&x)), m.unpack(s128(base)));
                let same32: V32 = m.unpack(s128(w));
                let same64: V64 = m.unpack(s128(w));
                if !(a32 == same32) || !(a64 == same64) {
                    return Some(format!("[{}] is not == itself (u32x4 {}, u64x2 {})", hexw(w), a32 == same32, a64 == same64));
                }
                if (a32 == zero32) != is_zero || (a64 == zero64) != is_zero || (b32 == c32) != is_zero || (b64 == c64) != is_zero {
                    return Some(format!("== on [{}]: vs zero u32x4 {} u64x2 {}; [{}] vs [{}] u32x4 {} u64x2 {}", hexw(w), a32 == zero32, a64 == zero64, hexw(&x), hexw(base), b32 == c32, b64 == c64));
                }
            }
            None
        });
        mv(cx, "u32x4,u64x2", "eq-and-default", r, 6 * ins.len());
        let r = guarded(|| {
            for w in &ins {
                let a: V32 = unsafe { UnsafeFrom::unsafe_from([w[0], w[1], w[2], w[3]]) };
                let q = [w[0] as u64 | (w[1] as u64) << 32, w[2] as u64 | (w[3] as u64) << 32];
                let b: V64 = unsafe { UnsafeFrom::unsafe_from(q) };
                if w128(a.into()) != *w || w128(b.into()) != *w {
                    return Some(format!("unsafe_from of [{}]: u32x4 [{}], u64x2 [{}]", hexw(w), hexw(&w128(a.into())), hexw(&w128(b.into()))));
                }
            }
            None
        });
        mv(cx, "u32x4,u64x2", "unsafe_from-words", r, 2 * ins.len());
        let ins = data_inputs(8);
        let r = guarded(|| {
            for w in &ins {
                let v: <$M as Machine>::u128x2 = m.unpack(s256(w));
                let a: <$M as Machine>::u32x4x2 = v.into();
                let b: <$M as Machine>::u64x2x2 = v.into();
                if w256(a.into()) != *w || w256(b.into()) != *w {
                    return Some(format!("u128x2 [{}] into u32x4x2 = [{}], into u64x2x2 = [{}]", hexw(w), hexw(&w256(a.into())), hexw(&w256(b.into()))));
                }
            }
            None
        });
        mv(cx, "u128x2", "into-u32x4x2-u64x2x2", r, 2 * ins.len());
        let r = guarded(|| {
            type V64x2 = <$M as Machine>::u64x2x2;
            let base = &ins[0];
            for w in &ins {
                let is_zero = w.iter().all(|x| *x == 0);
                let x: Vec<u32> = base.iter().zip(w.iter()).map(|(p, q)| p ^ q).collect();
                let (a, b, c): (V64x2, V64x2, V64x2) = (m.unpack(s256(&x)), m.unpack(s256(base)), m.unpack(s256(&x)));
                if (a == b) != is_zero || !(a == c) {
                    return Some(format!("u64x2x2 == : [{}] vs [{}] gives {}, vs itself {}", hexw(&x), hexw(base), a == b, a == c));
                }
                let lanes: [V64; 2] = [m.unpack(s128(&w[0..4])), m.unpack(s128(&w[4..8]))];
                let u: V64x2 = unsafe { UnsafeFrom::unsafe_from(lanes) };
                if w256(u.into()) != *w {
                    return Some(format!("u64x2x2::unsafe_from(lanes of [{}]) = [{}]", hexw(w), hexw(&w256(u.into()))));
                }
            }
            None
        });
        mv(cx, "u64x2x2", "eq-and-unsafe_from-lanes", r, 3 * ins.len());
        let ins = data_inputs(16);
        let r = guarded(|| {
            for w in &ins {
                let v: <$M as Machine>::u128x4 = m.unpack(s512(w));
                let a: <$M as Machine>::u32x4x4 = v.into();
                let b: <$M as Machine>::u64x2x4 = v.into();
                if w512(a.into()) != *w || w512(b.into()) != *w {
                    return Some(format!("u128x4 [{}] into u32x4x4 = [{}], into u64x2x4 = [{}]", hexw(w), hexw(&w512(a.into())), hexw(&w512(b.into()))));
                }
            }
            None
        });
        mv(cx, "u128x4", "into-u32x4x4-u64x2x4", r, 2 * ins.len());
        let r = guarded(|| {
            for w in &ins {
                let lanes: [V64; 4] = [m.unpack(s128(&w[0..4])), m.unpack(s128(&w[4..8])), m.unpack(s128(&w[8..12])), m.unpack(s128(&w[12..16]))];
                let u: <$M as Machine>::u64x2x4 = unsafe { UnsafeFrom::unsafe_from(lanes) };
                if w512(u.into()) != *w {
                    return Some(format!("u64x2x4::unsafe_from(lanes of [{}]) = [{}]", hexw(w), hexw(&w512(u.into()))));
                }
            }
            None
        });
        mv(cx, "u64x2x4", "unsafe_from-lanes", r, ins.len());
    }};
}

// ---------------------------------------------------------------------------------------------
#[cfg(not(feature = "nosimd"))]
mod machines {
    use super::*;
    use ppv_lite86::x86_64::*;
    macro_rules! ext { ($m:ty) => { impl MachExt for $m { fn bswap128(v: Self::u128x1) -> Self::u128x1 { v.bswap() } } }; }
    ext!(SSE2);
    ext!(SSSE3);
    ext!(SSE41);
    ext!(AVX2);
    macro_rules! extras_fn {
        ($f:ident, $M:ty) => {
            #[cfg(feature = "simd_extras")]
            fn $f(cx: &mut Cx) {
                if cx.c13 {
                    x86_extras!(cx, unsafe { <$M>::instance() }, $M);
                }
            }
            #[cfg(not(feature = "simd_extras"))]
            fn $f(_cx: &mut Cx) {}
        };
    }
    extras_fn!(extras_sse2, SSE2);
    extras_fn!(extras_ssse3, SSSE3);
    extras_fn!(extras_sse41, SSE41);
    extras_fn!(extras_avx2, AVX2);
    pub fn all(cx: &mut Cx) {
        unsafe {
            cx.backend = "sse2";
            run_machine(cx, SSE2::instance());
            extras_sse2(cx);
            cx.backend = "ssse3";
            run_machine(cx, SSSE3::instance());
            extras_ssse3(cx);
            cx.backend = "sse41_avx";
            run_machine(cx, SSE41::instance());
            extras_sse41(cx);
            cx.backend = "avx2";
            run_machine(cx, AVX2::instance());
            extras_avx2(cx);
        }
    }
}
#[cfg(feature = "nosimd")]
mod machines {
    use super::*;
    use ppv_lite86::generic::GenericMachine;
    impl MachExt for GenericMachine {
        fn bswap128(v: Self::u128x1) -> Self::u128x1 {
            v.bswap()
        }
        #[cfg(feature = "simd_extras")]
        fn extra_c12(cx: &mut Cx, m: Self) {
            type M = GenericMachine;
            let (_, bi) = arith::<<M as Machine>::u128x1>(128);
            check_binary(cx, &io128::<M, <M as Machine>::u128x1>(m, 128, "u128x1"), &bi, "c12");
            let (_, bi) = arith::<<M as Machine>::u128x2>(128);
            check_binary(cx, &io256::<M, <M as Machine>::u128x2>(m, 128, "u128x2"), &bi, "c12");
            let (_, bi) = arith::<<M as Machine>::u128x4>(128);
            check_binary(cx, &io512::<M, <M as Machine>::u128x4>(m, 128, "u128x4"), &bi, "c12");
        }
    }
    pub fn all(cx: &mut Cx) {
        cx.backend = "generic";
        run_machine(cx, unsafe { GenericMachine::instance() });
    }
}

pub fn run(check: &str, tier: &str, config: &str) -> Report {
    let mut rep = Report::new(check, tier, config);
    let triples;
    {
        let mut cx = Cx { rep: &mut rep, backend: "?", c12: check == "C12", c13: check == "C13", thorough: tier == "thorough", triples: Vec::new() };
        machines::all(&mut cx);
        triples = cx.triples;
    }
    rep.set("triples", json!(triples.len()));
    rep.set("triple_list", json!(triples));
    if check == "C12" {
        rep.rule = "for every backend instantiated directly (SSE2, SSSE3, SSE4.1 = AVX types, AVX2; generic in the no_simd build) x the 10 Machine vector types x every operation the trait bounds require (not, and, or, xor, xor-assign, andnot, 8 rotate_each_word_right*, right32, add, add-assign, bswap, shuffle{1230,2301,3012}, shuffle_lane_words*, swap{1..64}; u128x1 bswap through the concrete type; on the portable backend also add / add-assign of u128x1, u128x2, u128x4, which it offers beyond the trait vocabulary): unary ops on every alphabet value {0,1,2,2^w-1,2^w-2,2^(w-1),2^(w-1)-1,0x55..,0xaa..,2 patterns, every one-hot, every one-cold} in every word position with pairwise distinct fillers elsewhere; binary ops on A x A per word position (quick: band around the diagonal + first 11 rows/columns); every ordered pair of unary ops on a seed subset (depth-2 closure); oracle = scalar u32/u64/u128 arithmetic on little-endian word lists".into();
    } else {
        rep.rule = "for every backend x vector type: unpack(into) round trip, to_lanes/from_lanes/vec, extract/insert at every index, read_le/write_le/read_be/write_be, transpose4, to_scalars, and the array views of vec128/256/512_storage, on {fillers, 0, all-ones, byte-counting pattern, every one-hot bit}; Default and == of the storage types (equal iff no bit differs, every one-hot difference); on the x86 machines also what the vector types offer beyond the trait vocabulary (harness feature simd_extras): u128x1/u128x2/u128x4 reinterpreted Into the 32- and 64-bit-word types, == and Default of u32x4 / u64x2, UnsafeFrom word arrays; oracle = array semantics with little-endian word packing".into();
        rep.set("simd_extras", json!(cfg!(feature = "simd_extras")));
    }
    rep
}
