//! C05: Skein-256/512/1024 for every output size of a list, every message length over three blocks.
use crate::hashers::*;
use crate::hsweep::*;
use crate::report::*;
use crate::{hk, skein_hk};
use digest::generic_array::typenum::*;

/// an instance reused after reset / finalize_reset / finalize_fixed_reset behaves like a new one (per output size:
/// anything precomputed per N, e.g. an initial-value table used only by reset, is exercised)
fn reuse<H: HK>(rep: &mut Report) {
    use digest::Digest;
    let b = H::BLOCK;
    for (first, second) in [(0usize, 1usize), (b + 3, b), (1, 2 * b + 1)] {
        let m1 = crate::hashers::pattern(5, first);
        let m2 = crate::hashers::pattern(6, second);
        let want = H::ref_digest(&m2);
        let r = guarded(|| {
            let mut out = Vec::new();
            let mut d = H::D::new();
            d.update(&m1);
            Digest::reset(&mut d);
            d.update(&m2);
            out.push(("reset", d.finalize().to_vec()));
            let mut d = H::D::new();
            d.update(&m1);
            let _ = d.finalize_reset();
            d.update(&m2);
            out.push(("finalize_reset", d.finalize().to_vec()));
            let mut d = H::D::new();
            d.update(&m1);
            let _ = digest::FixedOutput::finalize_fixed_reset(&mut d);
            d.update(&m2);
            out.push(("finalize_fixed_reset", d.finalize().to_vec()));
            out
        });
        rep.evaluations += 3;
        let replay = serde_json::json!({"engine":"E","check":"C05","hasher":H::NAME,"reuse_after":[first, second]});
        match r {
            Err(p) => rep.violation(&format!("c05:{}:reuse:panic:{}", H::NAME, panic_class(&p)), p, replay),
            Ok(v) => {
                for (what, got) in v {
                    if got != want {
                        rep.violation(&format!("c05:{}:reuse-after-{}:digest-mismatch", H::NAME, what), format!("an instance reused after {} ({} bytes absorbed before) gives a digest of the next {}-byte message that differs from a fresh instance / the model", what, first, second), replay.clone());
                    }
                }
            }
        }
    }
}

macro_rules! skein_matrix {
    ($( ($m:ident, $n:ident, $nn:expr) ),*) => {
        mod kinds {
            use super::*;
            $(
                pub mod $m {
                    use super::*;
                    skein_hk!(K256, Skein256, 32, $n, $nn);
                    skein_hk!(K512, Skein512, 64, $n, $nn);
                    skein_hk!(K1024, Skein1024, 128, $n, $nn);
                }
            )*
        }
        fn all(rep: &mut Report, tier: &str) {
            $(
                skein_one::<kinds::$m::K256>(rep, tier);
                skein_one::<kinds::$m::K512>(rep, tier);
                skein_one::<kinds::$m::K1024>(rep, tier);
                reuse::<kinds::$m::K256>(rep);
                reuse::<kinds::$m::K512>(rep);
                reuse::<kinds::$m::K1024>(rep);
            )*
        }
    };
}

skein_matrix!(
    (n1, U1, 1), (n2, U2, 2), (n7, U7, 7), (n8, U8, 8), (n9, U9, 9), (n16, U16, 16), (n20, U20, 20), (n28, U28, 28), (n31, U31, 31), (n32, U32, 32), (n33, U33, 33), (n48, U48, 48),
    (n63, U63, 63), (n64, U64, 64), (n65, U65, 65), (n96, U96, 96), (n127, U127, 127), (n128, U128, 128), (n129, U129, 129), (n160, U160, 160), (n255, U255, 255), (n256, U256, 256),
    (n257, U257, 257), (n300, U300, 300), (n512, U512, 512), (n16384, U16384, 16384), (n65536, U65536, 65536)
);

pub fn run(tier: &str, config: &str) -> Report {
    let mut rep = Report::new("C05", tier, config);
    rep.rule = "3 state sizes x 27 output sizes N in {1,2,7,8,9,16,20,28,31,32,33,48,63,64,65,96,127,128,129,160,255,256,257,300,512,16384,65536} bytes (16384 = 512/256/128 output blocks: the output block counter passes one byte; 65536: the bit length in the configuration block passes 16 bits); for every one of these 81 types additionally a reused instance (after reset, after Digest::finalize_reset, after FixedOutput::finalize_fixed_reset) must give the digest of a fresh one x every message length 0..=4B+2 (thorough 9B+2) of counting bytes, plus every one-hot message of lengths B and B+1 for N=32 and messages of 1000, 4097, 65537, 16B, 16B+1 bytes; compared with vref::skein (UBI over the model's own Threefish, 128-bit tweak integer); distinct_nontrivial = distinct expected digests".into();
    all(&mut rep, tier);
    // one-hot messages (every message bit of a full block and of the byte after it)
    fn onehot<H: HK>(rep: &mut Report) {
        let b = H::BLOCK;
        let mut v = Vec::new();
        for n in [b, b + 1] {
            for bit in 0..8 * n {
                v.push(Msg::OneHot(n, bit));
            }
        }
        sweep::<H>(rep, "C05", v);
    }
    // long messages (many blocks in one update call)
    fn long<H: HK>(rep: &mut Report) {
        sweep::<H>(rep, "C05", vec![Msg::Pat(1, 1000), Msg::Pat(1, 4097), Msg::Pat(1, 65537), Msg::Pat(2, 16 * H::BLOCK), Msg::Pat(0, 16 * H::BLOCK + 1)]);
    }
    long::<kinds::n32::K256>(&mut rep);
    long::<kinds::n32::K512>(&mut rep);
    long::<kinds::n32::K1024>(&mut rep);
    long::<kinds::n20::K512>(&mut rep);
    long::<kinds::n300::K256>(&mut rep);
    onehot::<kinds::n32::K256>(&mut rep);
    onehot::<kinds::n32::K512>(&mut rep);
    onehot::<kinds::n32::K1024>(&mut rep);
    rep
}
