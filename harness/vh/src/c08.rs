//! C08: incremental hashing is invariant under chunking, cloning and reset (Engine H, stateless:
//! every operation history up to a depth is executed from scratch on the real hasher objects).
use crate::hashers::*;
use crate::report::*;
use digest::Digest;
use rayon::prelude::*;
use serde_json::{json, Value};
use std::collections::HashMap;
use std::sync::Mutex;

#[derive(Clone, Copy, Debug, PartialEq, Eq)]
pub enum Op {
    Update(u8, usize), // instance, length index
    CloneOp,
    Reset(u8),
    FinReset(u8),
    /// FixedOutput::finalize_fixed_reset: finalises in place (no clone) and resets
    FinFixedReset(u8),
    Fin(u8),
    /// Clone::clone_from into this instance from the other live one (a hand-written Clone can differ from clone())
    CloneFrom(u8),
}

pub fn lens<H: HK>() -> Vec<usize> {
    let b = H::BLOCK;
    vec![0, 1, b - 1, b, b + 1, 2 * b, 2 * b + 1, 3 * b + 5]
}

fn op_json<H: HK>(o: &Op) -> Value {
    let l = lens::<H>();
    match o {
        Op::Update(i, k) => json!({"op":"update","inst":i,"len":l[*k]}),
        Op::CloneOp => json!({"op":"clone"}),
        Op::Reset(i) => json!({"op":"reset","inst":i}),
        Op::FinReset(i) => json!({"op":"finalize_reset","inst":i}),
        Op::FinFixedReset(i) => json!({"op":"finalize_fixed_reset","inst":i}),
        Op::Fin(i) => json!({"op":"finalize","inst":i}),
        Op::CloneFrom(i) => json!({"op":"clone_from","inst":i}),
    }
}

/// model of one instance: which byte line it reads (0 = original, 1 = clone), where it forked
#[derive(Clone, Copy, Debug, PartialEq, Eq, Hash)]
struct MSt {
    line: u8,
    fork: Option<usize>,
    len: usize,
}
fn line_byte(line: u8, i: usize) -> u8 {
    if line == 0 { ((i * 151 + 7) % 253) as u8 } else { ((i * 89 + 101) % 241) as u8 ^ 0x80 }
}
fn msg_of(m: &MSt) -> Vec<u8> {
    (0..m.len)
        .map(|i| match m.fork {
            Some(f) if i < f => line_byte(0, i),
            _ => line_byte(m.line, i),
        })
        .collect()
}

struct Oracle<H: HK> {
    memo: Mutex<HashMap<MSt, (Vec<u8>, Vec<u8>)>>,
    _h: std::marker::PhantomData<H>,
}
impl<H: HK> Oracle<H> {
    fn expected(&self, m: &MSt) -> (Vec<u8>, Vec<u8>) {
        if let Some(v) = self.memo.lock().unwrap().get(m) {
            return v.clone();
        }
        let msg = msg_of(m);
        let v = (H::D::digest(&msg).to_vec(), H::ref_digest(&msg));
        self.memo.lock().unwrap().insert(*m, v.clone());
        v
    }
}

struct Live<H: HK> {
    d: H::D,
    m: MSt,
}

/// execute one history; Err((sig, detail)) on the first failing check
fn exec<H: HK>(or: &Oracle<H>, ops: &[Op], final_check: bool) -> Result<u32, (String, String)> {
    let l = lens::<H>();
    let mut inst: [Option<Live<H>>; 2] = [Some(Live { d: H::D::new(), m: MSt { line: 0, fork: None, len: 0 } }), None];
    let mut checks = 0u32;
    let check = |what: &str, got: &[u8], m: &MSt| -> Result<(), (String, String)> {
        let (oneshot, model) = or.expected(m);
        if got != &oneshot[..] {
            return Err((format!("c08:{}:{}:ne-oneshot", H::NAME, what), format!("digest after history differs from the one-shot digest of the same {} bytes: got {} want {}", m.len, vref::hex(got), vref::hex(&oneshot))));
        }
        if got != &model[..] {
            return Err((format!("c08:{}:{}:ne-model", H::NAME, what), format!("digest differs from the reference model for the same {} bytes", m.len)));
        }
        Ok(())
    };
    for o in ops {
        match *o {
            Op::Update(i, k) => {
                let it = inst[i as usize].as_mut().unwrap();
                let n = l[k];
                let data: Vec<u8> = (it.m.len..it.m.len + n).map(|j| line_byte(it.m.line, j)).collect();
                it.d.update(&data);
                it.m.len += n;
            }
            Op::CloneOp => {
                let a = inst[0].as_ref().unwrap();
                let c = Live::<H> { d: a.d.clone(), m: MSt { line: 1, fork: Some(a.m.len), len: a.m.len } };
                inst[1] = Some(c);
            }
            Op::Reset(i) => {
                let it = inst[i as usize].as_mut().unwrap();
                Digest::reset(&mut it.d);
                it.m = MSt { line: it.m.line, fork: None, len: 0 };
            }
            Op::FinReset(i) => {
                let it = inst[i as usize].as_mut().unwrap();
                let got = it.d.finalize_reset().to_vec();
                checks += 1;
                check("finalize_reset", &got, &it.m)?;
                it.m = MSt { line: it.m.line, fork: None, len: 0 };
            }
            Op::FinFixedReset(i) => {
                let it = inst[i as usize].as_mut().unwrap();
                let got = digest::FixedOutput::finalize_fixed_reset(&mut it.d).to_vec();
                checks += 1;
                check("finalize_fixed_reset", &got, &it.m)?;
                it.m = MSt { line: it.m.line, fork: None, len: 0 };
            }
            Op::Fin(i) => {
                let it = inst[i as usize].take().unwrap();
                let got = it.d.finalize().to_vec();
                checks += 1;
                check("finalize", &got, &it.m)?;
            }
            Op::CloneFrom(i) => {
                let (a, b) = inst.split_at_mut(1);
                let (dst, src) = if i == 0 { (a[0].as_mut().unwrap(), b[0].as_ref().unwrap()) } else { (b[0].as_mut().unwrap(), a[0].as_ref().unwrap()) };
                dst.d.clone_from(&src.d);
                dst.m = src.m; // from here on the destination is a copy: same byte line, same absorbed bytes
            }
        }
    }
    if final_check {
        // every live instance is finalised at the end of every history
        for i in 0..2 {
            if let Some(it) = inst[i].take() {
                let got = it.d.finalize().to_vec();
                checks += 1;
                check(if i == 0 { "end-original" } else { "end-clone" }, &got, &it.m)?;
            }
        }
    }
    Ok(checks)
}

fn menu(live: [bool; 2], nl: usize, have_clone_budget: bool) -> Vec<Op> {
    let mut v = Vec::new();
    for i in 0..2u8 {
        if live[i as usize] {
            for k in 0..nl {
                v.push(Op::Update(i, k));
            }
        }
    }
    if live[0] && !live[1] && have_clone_budget {
        v.push(Op::CloneOp);
    }
    for i in 0..2u8 {
        if live[i as usize] {
            v.push(Op::Reset(i));
            v.push(Op::FinReset(i));
            v.push(Op::FinFixedReset(i));
            v.push(Op::Fin(i));
        }
    }
    if live[0] && live[1] {
        v.push(Op::CloneFrom(0));
        v.push(Op::CloneFrom(1));
    }
    v
}

fn enumerate(depth: usize, nl: usize) -> Vec<Vec<Op>> {
    // all valid histories of exactly `depth` operations (shorter ones are prefixes: their checks
    // are executed as part of the longer ones, and histories ending early because no instance is
    // live are emitted as they are)
    let mut out = Vec::new();
    fn rec(depth: usize, nl: usize, live: [bool; 2], cloned: bool, cur: &mut Vec<Op>, out: &mut Vec<Vec<Op>>) {
        if cur.len() == depth || (!live[0] && !live[1]) {
            out.push(cur.clone());
            return;
        }
        for o in menu(live, nl, !cloned) {
            let mut l2 = live;
            let mut c2 = cloned;
            match o {
                Op::CloneOp => {
                    l2[1] = true;
                    c2 = true;
                }
                Op::Fin(i) => l2[i as usize] = false,
                _ => {}
            }
            cur.push(o);
            rec(depth, nl, l2, c2, cur, out);
            cur.pop();
        }
    }
    rec(depth, nl, [true, false], false, &mut Vec::new(), &mut out);
    out
}

fn run_one<H: HK>(rep: &mut Report, depth: usize, two_piece_max: usize) {
    let or = Oracle::<H> { memo: Mutex::new(HashMap::new()), _h: std::marker::PhantomData };
    let t0 = std::time::Instant::now();
    let hist = enumerate(depth, lens::<H>().len());
    let res: Vec<(usize, Result<Result<u32, (String, String)>, String>)> = hist.par_iter().enumerate().map(|(i, h)| (i, guarded(|| exec::<H>(&or, h, true)))).collect();
    let mut checks = 0u64;
    let mut ops = 0u64;
    for (i, r) in res {
        rep.evaluations += 1;
        ops += hist[i].len() as u64;
        let replay = || json!({"engine":"H-stateless","check":"C08","hasher":H::NAME,"ops":hist[i].iter().map(|o| op_json::<H>(o)).collect::<Vec<_>>()});
        if i % 40009 == 11 {
            rep.sample(replay());
        }
        match r {
            Err(p) => rep.violation(&format!("c08:{}:panic:{}", H::NAME, panic_class(&p)), format!("history panicked: {}", p), replay()),
            Ok(Err((sig, detail))) => rep.violation(&sig, detail, replay()),
            Ok(Ok(c)) => checks += c as u64,
        }
    }
    // dense two-piece family
    let pairs: Vec<(usize, usize)> = (0..=two_piece_max).flat_map(|a| (0..=two_piece_max - a).map(move |b| (a, b))).collect();
    let res: Vec<(usize, usize, Result<bool, String>)> = pairs
        .par_iter()
        .map(|&(a, b)| {
            let m = MSt { line: 0, fork: None, len: a + b };
            let msg = msg_of(&m);
            let r = guarded(|| {
                let mut d = H::D::new();
                d.update(&msg[..a]);
                d.update(&msg[a..]);
                d.finalize().to_vec() == H::D::digest(&msg).to_vec()
            });
            (a, b, r)
        })
        .collect();
    let mut pair_n = 0u64;
    for (a, b, r) in res {
        pair_n += 1;
        let replay = json!({"engine":"H-stateless","check":"C08","hasher":H::NAME,"two_piece":[a,b]});
        match r {
            Err(p) => rep.violation(&format!("c08:{}:two-piece:panic:{}", H::NAME, panic_class(&p)), p, replay),
            Ok(false) => rep.violation(&format!("c08:{}:two-piece:ne-oneshot", H::NAME), format!("update({}) ; update({}) differs from one-shot digest", a, b), replay),
            Ok(true) => {}
        }
    }
    rep.evaluations += pair_n;
    let distinct = or.memo.lock().unwrap().len() as u64;
    rep.nontrivial += distinct;
    rep.add("histories", hist.len() as u64);
    rep.add("transitions", ops);
    rep.add("states", distinct); // distinct model states (line, fork point, length) at which a digest was compared
    rep.add("digest_checks", checks);
    rep.add("two_piece_pairs", pair_n);
    let mut arr = rep.extra.get("per_hasher").cloned().unwrap_or(json!([]));
    arr.as_array_mut().unwrap().push(json!({"hasher": H::NAME, "histories": hist.len(), "operations": ops, "digest_checks": checks, "distinct_model_states": distinct, "two_piece_pairs": pair_n, "wall_s": t0.elapsed().as_secs_f64()}));
    rep.set("per_hasher", arr);
}

pub fn run(tier: &str, config: &str) -> Report {
    let mut rep = Report::new("C08", tier, config);
    let depth: usize = std::env::var("VH_DEPTH").ok().and_then(|s| s.parse().ok()).unwrap_or(if tier == "thorough" { 6 } else { 4 });
    rep.rule = format!("every valid history of {} operations over {{update(inst, l): l in {{0,1,B-1,B,B+1,2B,2B+1,3B+5}}, clone (once; afterwards both instances are driven), clone_from in either direction between two live instances, reset, Digest::finalize_reset, FixedOutput::finalize_fixed_reset (in place), finalize}} with <= 2 live instances, executed from scratch on the real hasher (no state merging); the clone absorbs a different byte line after the fork point; at every finalize*/end of history the digest is compared with the one-shot digest of the same implementation and with vref; plus every two-piece split (a,b) with a+b <= 3B+1. `states` = distinct model states (byte line, fork point, length) at which digests were compared + states of the keyed phase, `transitions` = operations executed. Keyed phase: explicit-state BFS on the real hasher objects to a fixpoint inside a length window (key = model state + behavioural fingerprint: digest of a clone and digest of a clone after B+1 more bytes): (1) one instance, update(l) for every l in 0..=B+1 and 2B-1,2B,2B+1,3B+5, reset, finalize_reset, finalize_fixed_reset, window 3B+5; (2) clone allowed, two live instances, block-relative lengths, every operation on either instance; oracle on every created state (and on the untouched other instance).", depth);
    macro_rules! go { ($k:ty) => { run_one::<$k>(&mut rep, depth, 3 * <$k as HK>::BLOCK + 1); crate::c08k::run_one::<$k>(&mut rep, tier == "thorough"); }; }
    go!(KBlake224); go!(KBlake256); go!(KBlake384); go!(KBlake512);
    go!(KGroestl224); go!(KGroestl256); go!(KGroestl384); go!(KGroestl512);
    go!(KJh224); go!(KJh256); go!(KJh384); go!(KJh512);
    go!(KSkein256_32); go!(KSkein512_64); go!(KSkein1024_128);
    let tr = rep.extra.get("transitions").and_then(|v| v.as_u64()).unwrap_or(0);
    rep.set("traces_validated_against_impl", json!(rep.extra.get("histories").cloned().unwrap_or(json!(0))));
    let _ = tr;
    rep
}

fn replay_one<H: HK>(v: &Value) -> bool {
    let or = Oracle::<H> { memo: Mutex::new(HashMap::new()), _h: std::marker::PhantomData };
    let l = lens::<H>();
    if let Some(tp) = v.get("two_piece") {
        let (a, b) = (tp[0].as_u64().unwrap() as usize, tp[1].as_u64().unwrap() as usize);
        let msg = msg_of(&MSt { line: 0, fork: None, len: a + b });
        let mut d = H::D::new();
        d.update(&msg[..a]);
        d.update(&msg[a..]);
        let got = d.finalize().to_vec();
        let want = H::D::digest(&msg).to_vec();
        println!("replay C08 {} update({}) ; update({}): got {} one-shot {}", H::NAME, a, b, vref::hex(&got), vref::hex(&want));
        return got == want;
    }
    let ops: Vec<Op> = v["ops"].as_array().unwrap().iter().map(|o| {
        let i = o.get("inst").and_then(|x| x.as_u64()).unwrap_or(0) as u8;
        match o["op"].as_str().unwrap() {
            "update" => Op::Update(i, l.iter().position(|x| *x as u64 == o["len"].as_u64().unwrap()).unwrap()),
            "clone" => Op::CloneOp,
            "reset" => Op::Reset(i),
            "finalize_reset" => Op::FinReset(i),
            "finalize_fixed_reset" => Op::FinFixedReset(i),
            "clone_from" => Op::CloneFrom(i),
            _ => Op::Fin(i),
        }
    }).collect();
    println!("replay C08 {}: {:?}", H::NAME, ops);
    match guarded(|| exec::<H>(&or, &ops, true)) {
        Err(p) => { println!("  PANIC {}", p); false }
        Ok(Err((sig, detail))) => { println!("  VIOLATION {}: {}", sig, detail); false }
        Ok(Ok(n)) => { println!("  {} digest comparisons, all equal", n); true }
    }
}
pub fn replay(v: &Value) -> Option<bool> {
    crate::with_hasher!(v["hasher"].as_str()?, replay_one, v)
}
