//! C08, keyed phase: explicit-state BFS on the real hasher objects to a FIXPOINT inside a length
//! window (histories of unbounded depth). The hashers' fields are private, so the dedup key is the
//! model state (byte line, fork point, absorbed length) together with a *behavioural fingerprint* of
//! the object: the digest of a clone, and the digest of a clone after absorbing B+1 more bytes. For a
//! correct implementation the fingerprint is a function of the model state and the search closes
//! after (number of model states) states; a history-dependent implementation produces additional
//! states for the same model state, which are explored as well. The oracle is evaluated on every
//! created state: digest of a clone = one-shot digest of the model bytes = reference model.
use crate::explore::*;
use crate::hashers::*;
use crate::report::*;
use digest::Digest;
use serde_json::{json, Value};
use std::collections::HashMap;
use std::sync::Mutex;

#[derive(Clone, Copy, Debug, PartialEq, Eq, Hash)]
pub struct MSt {
    pub line: u8,
    pub fork: Option<usize>,
    pub len: usize,
}
fn line_byte(line: u8, i: usize) -> u8 {
    if line == 0 { ((i * 151 + 7) % 253) as u8 } else { ((i * 89 + 101) % 241) as u8 ^ 0x80 }
}
fn msg_of(m: &MSt) -> Vec<u8> {
    (0..m.len).map(|i| match m.fork { Some(f) if i < f => line_byte(0, i), _ => line_byte(m.line, i) }).collect()
}

pub struct Inst<H: HK> {
    d: H::D,
    m: MSt,
    fp: u64,
}
impl<H: HK> Clone for Inst<H> {
    fn clone(&self) -> Self {
        Inst { d: self.d.clone(), m: self.m, fp: self.fp }
    }
}
pub struct KSt<H: HK> {
    insts: [Option<Inst<H>>; 2],
}
impl<H: HK> Clone for KSt<H> {
    fn clone(&self) -> Self {
        KSt { insts: [self.insts[0].clone(), self.insts[1].clone()] }
    }
}
impl<H: HK> KSt<H> {
    fn key(&self) -> [Option<(MSt, u64)>; 2] {
        [self.insts[0].as_ref().map(|i| (i.m, i.fp)), self.insts[1].as_ref().map(|i| (i.m, i.fp))]
    }
}
impl<H: HK> PartialEq for KSt<H> {
    fn eq(&self, o: &Self) -> bool {
        self.key() == o.key()
    }
}
impl<H: HK> Eq for KSt<H> {}
impl<H: HK> std::hash::Hash for KSt<H> {
    fn hash<X: std::hash::Hasher>(&self, h: &mut X) {
        self.key().hash(h)
    }
}

#[derive(Clone, Copy, Debug, PartialEq, Eq)]
pub enum KOp {
    Update(u8, usize),
    CloneOp,
    Reset(u8),
    FinReset(u8),
    FinFixedReset(u8),
    Fin(u8),
    /// Clone::clone_from into this instance from the other live one
    CloneFrom(u8),
}
impl KOp {
    fn json(&self) -> Value {
        match self {
            KOp::Update(i, n) => json!({"op":"update","inst":i,"len":n}),
            KOp::CloneOp => json!({"op":"clone"}),
            KOp::Reset(i) => json!({"op":"reset","inst":i}),
            KOp::FinReset(i) => json!({"op":"finalize_reset","inst":i}),
            KOp::FinFixedReset(i) => json!({"op":"finalize_fixed_reset","inst":i}),
            KOp::Fin(i) => json!({"op":"finalize","inst":i}),
            KOp::CloneFrom(i) => json!({"op":"clone_from","inst":i}),
        }
    }
}

pub struct KSys<H: HK> {
    lens: Vec<usize>,
    window: usize,
    allow_clone: bool,
    memo: Mutex<HashMap<MSt, (Vec<u8>, Vec<u8>)>>,
    _h: std::marker::PhantomData<H>,
}
impl<H: HK> KSys<H> {
    fn expected(&self, m: &MSt) -> (Vec<u8>, Vec<u8>) {
        if let Some(v) = self.memo.lock().unwrap().get(m) {
            return v.clone();
        }
        let msg = msg_of(m);
        let v = (H::D::digest(&msg).to_vec(), H::ref_digest(&msg));
        self.memo.lock().unwrap().insert(*m, v.clone());
        v
    }
    /// oracle + fingerprint for a freshly produced object
    fn seal(&self, d: H::D, m: MSt, what: &str) -> Result<Inst<H>, Step<KSt<H>>> {
        let now = d.clone().finalize().to_vec();
        let (oneshot, model) = self.expected(&m);
        if now != oneshot {
            return Err(Step::Bad { sig: format!("c08:{}:keyed:{}:ne-oneshot", H::NAME, what), detail: format!("after {}, the digest of the {} absorbed bytes differs from the one-shot digest: got {} want {}", what, m.len, vref::hex(&now), vref::hex(&oneshot)) });
        }
        if now != model {
            return Err(Step::Bad { sig: format!("c08:{}:keyed:{}:ne-model", H::NAME, what), detail: format!("after {}, the digest of the {} absorbed bytes differs from the reference model", what, m.len) });
        }
        let mut c = d.clone();
        let probe: Vec<u8> = (0..H::BLOCK + 1).map(|i| (i as u8) ^ 0x3c).collect();
        c.update(&probe);
        let later = c.finalize().to_vec();
        let mut f = now;
        f.extend(later);
        Ok(Inst { d, m, fp: fnv(&f) })
    }
}

impl<H: HK> Sys for KSys<H> {
    type S = KSt<H>;
    type A = KOp;
    fn init(&self) -> Vec<KSt<H>> {
        let m = MSt { line: 0, fork: None, len: 0 };
        match self.seal(H::D::new(), m, "new") {
            Ok(i) => vec![KSt { insts: [Some(i), None] }],
            Err(_) => vec![],
        }
    }
    fn actions(&self, s: &KSt<H>) -> Vec<KOp> {
        let mut v = Vec::new();
        for i in 0..2u8 {
            if s.insts[i as usize].is_some() {
                for l in &self.lens {
                    v.push(KOp::Update(i, *l));
                }
                v.push(KOp::Reset(i));
                v.push(KOp::FinReset(i));
                v.push(KOp::FinFixedReset(i));
                if s.insts[1 - i as usize].is_some() {
                    v.push(KOp::Fin(i)); // keep at least one instance alive so the search continues
                }
            }
        }
        if self.allow_clone && s.insts[0].is_some() && s.insts[1].is_none() {
            v.push(KOp::CloneOp);
        }
        if s.insts[0].is_some() && s.insts[1].is_some() {
            v.push(KOp::CloneFrom(0));
            v.push(KOp::CloneFrom(1));
        }
        v
    }
    fn step(&self, s: &KSt<H>, a: &KOp) -> Step<KSt<H>> {
        let r = guarded(|| -> Step<KSt<H>> {
            let mut n = s.clone();
            let check = |what: &str, got: &[u8], m: &MSt| -> Option<Step<KSt<H>>> {
                let (oneshot, model) = self.expected(m);
                if got != &oneshot[..] || got != &model[..] {
                    return Some(Step::Bad { sig: format!("c08:{}:keyed:{}:wrong-digest", H::NAME, what), detail: format!("{} returned a digest that differs from the one-shot / model digest of the {} absorbed bytes", what, m.len) });
                }
                None
            };
            match *a {
                KOp::Update(i, l) => {
                    let it = n.insts[i as usize].take().unwrap();
                    if it.m.len + l > self.window {
                        return Step::Skip;
                    }
                    let mut d = it.d;
                    let data: Vec<u8> = (it.m.len..it.m.len + l).map(|j| line_byte(it.m.line, j)).collect();
                    d.update(&data);
                    let m = MSt { len: it.m.len + l, ..it.m };
                    match self.seal(d, m, "update") {
                        Ok(x) => n.insts[i as usize] = Some(x),
                        Err(b) => return b,
                    }
                }
                KOp::CloneOp => {
                    let a0 = n.insts[0].as_ref().unwrap();
                    // instance 0 may itself be a copy made by clone_from: then the new clone is an exact copy of its model too
                    let m = if a0.m.line == 0 && a0.m.fork.is_none() { MSt { line: 1, fork: Some(a0.m.len), len: a0.m.len } } else { a0.m };
                    match self.seal(a0.d.clone(), m, "clone") {
                        Ok(x) => n.insts[1] = Some(x),
                        Err(b) => return b,
                    }
                }
                KOp::Reset(i) => {
                    let it = n.insts[i as usize].take().unwrap();
                    let mut d = it.d;
                    Digest::reset(&mut d);
                    match self.seal(d, MSt { line: it.m.line, fork: None, len: 0 }, "reset") {
                        Ok(x) => n.insts[i as usize] = Some(x),
                        Err(b) => return b,
                    }
                }
                KOp::FinReset(i) | KOp::FinFixedReset(i) => {
                    let it = n.insts[i as usize].take().unwrap();
                    let mut d = it.d;
                    let (what, got) = if matches!(a, KOp::FinReset(_)) { ("finalize_reset", d.finalize_reset().to_vec()) } else { ("finalize_fixed_reset", digest::FixedOutput::finalize_fixed_reset(&mut d).to_vec()) };
                    if let Some(b) = check(what, &got, &it.m) {
                        return b;
                    }
                    match self.seal(d, MSt { line: it.m.line, fork: None, len: 0 }, what) {
                        Ok(x) => n.insts[i as usize] = Some(x),
                        Err(b) => return b,
                    }
                }
                KOp::CloneFrom(i) => {
                    let src = n.insts[1 - i as usize].as_ref().unwrap().clone();
                    let it = n.insts[i as usize].take().unwrap();
                    let mut d = it.d;
                    d.clone_from(&src.d);
                    // the destination is now a copy of the source: same byte line, same absorbed bytes
                    match self.seal(d, src.m, "clone_from") {
                        Ok(x) => n.insts[i as usize] = Some(x),
                        Err(b) => return b,
                    }
                }
                KOp::Fin(i) => {
                    let it = n.insts[i as usize].take().unwrap();
                    let got = it.d.finalize().to_vec();
                    if let Some(b) = check("finalize", &got, &it.m) {
                        return b;
                    }
                    // the surviving instance must be untouched by the other one's finalisation
                    let o = 1 - i as usize;
                    let other = n.insts[o].take().unwrap();
                    match self.seal(other.d, other.m, "finalize-of-the-other-instance") {
                        Ok(x) => n.insts[o] = Some(x),
                        Err(b) => return b,
                    }
                }
            }
            // an operation on one instance must not change what the other one produces
            if let KOp::Update(i, _) | KOp::Reset(i) | KOp::FinReset(i) | KOp::FinFixedReset(i) | KOp::CloneFrom(i) = *a {
                let o = 1 - i as usize;
                if let Some(other) = n.insts[o].take() {
                    match self.seal(other.d, other.m, "operation-on-the-other-instance") {
                        Ok(x) => n.insts[o] = Some(x),
                        Err(b) => return b,
                    }
                }
            }
            Step::Next(n)
        });
        match r {
            Ok(st) => st,
            Err(p) => Step::Bad { sig: format!("c08:{}:keyed:panic:{}", H::NAME, panic_class(&p)), detail: format!("{:?} panicked: {}", a, p) },
        }
    }
}

pub fn run_one<H: HK>(rep: &mut Report, thorough: bool) {
    let b = H::BLOCK;
    // phase 1: one instance, dense lengths, window 3B+5
    let mut dense: Vec<usize> = (0..=b + 1).collect();
    dense.extend_from_slice(&[2 * b - 1, 2 * b, 2 * b + 1, 3 * b + 5]);
    // phase 2: clone allowed, two live instances, block-relative lengths
    let (l2, w2): (Vec<usize>, usize) = if thorough { (vec![0, 1, b - 1, b, b + 1], b + 3) } else { (vec![0, b - 1, b, b + 1, 2 * b], 2 * b + 2) };
    let phases: Vec<(&str, KSys<H>)> = vec![
        ("single-instance", KSys { lens: dense, window: 3 * b + 5, allow_clone: false, memo: Mutex::new(HashMap::new()), _h: std::marker::PhantomData }),
        ("two-instances", KSys { lens: l2, window: w2, allow_clone: true, memo: Mutex::new(HashMap::new()), _h: std::marker::PhantomData }),
    ];
    for (pname, sys) in phases {
        let t0 = std::time::Instant::now();
        let out = bfs_capped(&sys, 10_000, if thorough { 3_000_000 } else { 300_000 }, std::time::Duration::from_secs(if thorough { 1800 } else { 60 }));
        let model_states = sys.memo.lock().unwrap().len();
        rep.add("keyed_states", out.unique_states as u64);
        rep.add("keyed_transitions", out.transitions);
        rep.add("states", out.unique_states as u64);
        rep.add("transitions", out.transitions);
        if !out.fixpoint {
            rep.exhaustive = false;
        }
        if let Some(c) = &out.capped {
            let mut arr = rep.extra.get("capped").cloned().unwrap_or(json!([]));
            arr.as_array_mut().unwrap().push(json!(format!("{} {}: {}", H::NAME, pname, c)));
            rep.set("capped", arr);
        }
        let mut arr = rep.extra.get("keyed_phases").cloned().unwrap_or(json!([]));
        arr.as_array_mut().unwrap().push(json!({"hasher": H::NAME, "phase": pname, "states": out.unique_states, "distinct_model_states": model_states, "transitions": out.transitions, "bfs_depth": out.max_depth, "fixpoint": out.fixpoint, "window_bytes": sys.window, "menu_lengths": sys.lens.len(), "wall_s": t0.elapsed().as_secs_f64()}));
        rep.set("keyed_phases", arr);
        if let Some(p) = out.sample_paths.last() {
            rep.sample(json!({"hasher": H::NAME, "phase": pname, "trace": p.iter().map(|a| a.json()).collect::<Vec<_>>()}));
        }
        for bt in out.bad {
            let replay = json!({"engine":"H","check":"C08","hasher":H::NAME,"keyed_phase":pname,"ops": bt.path.iter().map(|a| a.json()).collect::<Vec<_>>()});
            rep.violations.insert(bt.sig.clone(), Violation { sig: bt.sig.clone(), detail: format!("{} (after {} earlier operations)", bt.detail, bt.path.len() - 1), replay, count: bt.count });
        }
    }
}
