mod c01;
mod c05;
mod c06;
mod c08;
mod c08k;
mod c16;
mod c17;
mod c18;
mod c19;
mod hashers;
mod hsweep;
#[cfg(feature = "internals")]
mod chist;
mod chlive;
mod ciphers;
mod explore;
mod guts;
mod report;
mod simd;
#[cfg(feature = "internals")]
mod srcheck;
mod tf;

use report::Report;

fn arg(args: &[String], name: &str) -> Option<String> {
    args.iter().position(|a| a == name).and_then(|i| args.get(i + 1).cloned())
}

fn run_check(name: &str, tier: &str, config: &str) -> Option<Report> {
    let (tier, config) = (&tier.to_string(), &config.to_string());
    Some(match name {
        "c01" => c01::run(tier, config),
        #[cfg(feature = "internals")]
        "c02" => chist::run("C02", tier, config),
        #[cfg(feature = "internals")]
        "c11" => chist::run("C11", tier, config),
        #[cfg(not(feature = "internals"))]
        "c02" => chlive::run_alone("C02", tier, config),
        #[cfg(not(feature = "internals"))]
        "c11" => chlive::run_alone("C11", tier, config),
        "c04" => hsweep::run_c04(tier, config),
        "c05" => c05::run(tier, config),
        "c06" => c06::run(tier, config),
        "c07" => hsweep::run_c07(tier, config),
        "c08" => c08::run(tier, config),
        "c09" => tf::run("C09", tier, config),
        "c10" => tf::run("C10", tier, config),
        "c12" => simd::run("C12", tier, config),
        "c13" => simd::run("C13", tier, config),
        "c14" => guts::run_c14(tier, config),
        "c15" => guts::run_c15(tier, config),
        "c16" => c16::run(tier, config),
        "c17" => c17::run(tier, config),
        "c18" => c18::run(tier, config),
        "c19" => c19::run(tier, config),
        _ => return None,
    })
}

fn main() {
    let args: Vec<String> = std::env::args().collect();
    if args.len() < 2 {
        eprintln!("usage: vh <check> [--tier quick|thorough] [--config name] [--out file] | vh replay <file>");
        std::process::exit(2);
    }
    report::install_quiet_panic_hook();
    if let Some(n) = arg(&args, "--threads") {
        rayon::ThreadPoolBuilder::new().num_threads(n.parse().unwrap()).build_global().unwrap();
    }
    if args[1] == "selftest" {
        let repo = std::env::var("VERIF_REPO").unwrap_or_else(|_| "/repo".to_string());
        let (pass, fail) = vref::selftest::run(&repo);
        println!("vref-selftest: pass={} fail={}", pass, fail);
        std::process::exit(if fail == 0 { 0 } else { 2 });
    }
    if args[1] == "c18-child" {
        c18::child(&args[2], &args[3], &args[4]);
        return;
    }
    if args[1] == "c18-free" {
        c18::child_free(&args[2], args[3].parse().unwrap(), args.get(4).map(|x| x.parse().unwrap()).unwrap_or(1));
        return;
    }
    if args[1] == "c16-child" {
        c16::child(&args[2], &args[3], &args[4]);
        return;
    }
    if args[1] == "replay" {
        let v: serde_json::Value = serde_json::from_str(&std::fs::read_to_string(&args[2]).unwrap()).unwrap();
        let r = if v.get("replay").is_some() { v["replay"].clone() } else { v.clone() };
        let check = r["check"].as_str().unwrap_or("").to_string();
        let specific: Option<bool> = match check.as_str() {
            "C01" => Some(c01::replay(&r)),
            #[cfg(feature = "internals")]
            "C02" | "C11" if r["engine"] == "H" => Some(chist::replay(&r)),
            "C02" | "C11" if r["engine"] == "H-live" => chlive::replay(&r),
            "C04" | "C05" | "C06" | "C07" => if r.get("msg").is_some() { hsweep::replay(&r) } else { None },
            "C08" => c08::replay(&r),
            "C09" | "C10" => tf::replay(&r),
            "C17" => c17::replay(&r),
            "C18" => c18::replay(&r),
            _ => None,
        };
        let ok = match specific {
            Some(b) => b,
            None => {
                // fallback: re-run the check's quick tier and look for the recorded signature
                let sig = v["sig"].as_str().unwrap_or("").to_string();
                let sub = v["property"].as_str().unwrap_or(&check).to_lowercase();
                let config = arg(&args, "--config").unwrap_or("rel".into());
                println!("replay by signature: re-running {} and looking for {}", sub, sig);
                match run_check(&sub, "quick", &config) {
                    None => { eprintln!("no replayer for {}", sub); std::process::exit(2) }
                    Some(rep) => match rep.violations.get(&sig) {
                        Some(x) => { println!("  reproduced x{}: {}", x.count, x.detail); false }
                        None => { println!("  signature not reproduced ({} other violations)", rep.violations.len()); true }
                    },
                }
            }
        };
        println!("{}", if ok { "REPLAY: no violation" } else { "REPLAY: violation reproduced" });
        std::process::exit(if ok { 0 } else { 1 });
    }
    let tier = arg(&args, "--tier").unwrap_or("quick".into());
    let config = arg(&args, "--config").unwrap_or("rel".into());
    let out = arg(&args, "--out");
    let rep: Report = match run_check(args[1].as_str(), &tier, &config) {
        Some(r) => r,
        None => { eprintln!("unknown check {}", args[1]); std::process::exit(2) }
    };
    let j = rep.to_json();
    eprintln!("{} {} {}: evaluations={} nontrivial={} violations={} wall={:.1}s", rep.prop, tier, config, rep.evaluations, rep.nontrivial, rep.violations.len(), rep.start.elapsed().as_secs_f64());
    for v in rep.violations.values() {
        eprintln!("  VIOL {} x{}: {}", v.sig, v.count, v.detail);
    }
    match out {
        Some(p) => std::fs::write(p, serde_json::to_string_pretty(&j).unwrap()).unwrap(),
        None => {}
    }
}
