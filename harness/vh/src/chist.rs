//! C02 / C11: explicit-state exploration of the real cipher object (Engine H, keyed).
//! State = complete public state of the cipher (+ the model's absolute position); every transition
//! calls the real seek / try_apply_keystream / try_current_pos and is compared with the model.
use crate::ciphers::*;
use crate::explore::*;
use crate::report::*;
use cipher::StreamCipher;
use serde_json::{json, Value};
use std::collections::HashMap;
use std::marker::PhantomData;
use vref::chacha::{Layout, Stream};

/// When set, two states that differ only in the dead part of the block buffer `out` are merged
/// (dedup key only: every stored state keeps the real bytes of the first execution that reached it,
/// so every explored transition is a real execution from a really reachable state).
pub static CANONICAL_KEY: std::sync::atomic::AtomicBool = std::sync::atomic::AtomicBool::new(false);

fn key_out(s: &Snap) -> [u8; 64] {
    let mut o = s.out;
    if CANONICAL_KEY.load(std::sync::atomic::Ordering::Relaxed) {
        // `out` is read only at out[64-have..] and every path that raises `have` rewrites all 64
        // bytes first, so the rest is dead in the current implementation
        let live_from = if s.have <= 0 { 64 } else { 64 - s.have as usize };
        for b in o[..live_from].iter_mut() {
            *b = 0;
        }
    }
    o
}
impl PartialEq for St {
    fn eq(&self, o: &St) -> bool {
        self.pos == o.pos && self.lost_applied == o.lost_applied && self.snap.have == o.snap.have && self.snap.len == o.snap.len && self.snap.fresh == o.snap.fresh && self.snap.d0 == o.snap.d0 && self.snap.d1 == o.snap.d1 && key_out(&self.snap) == key_out(&o.snap)
    }
}
impl Eq for St {}
impl std::hash::Hash for St {
    fn hash<H: std::hash::Hasher>(&self, h: &mut H) {
        self.pos.hash(h);
        self.lost_applied.hash(h);
        self.snap.have.hash(h);
        self.snap.len.hash(h);
        self.snap.fresh.hash(h);
        self.snap.d0.hash(h);
        self.snap.d1.hash(h);
        key_out(&self.snap).hash(h);
    }
}

#[derive(Clone, Debug)]
pub struct St {
    pub snap: Snap,
    /// model: absolute byte position; None = unspecified (after a failed seek)
    pub pos: Option<u128>,
    /// position unspecified *and* keystream applied since: kept, not expanded further
    pub lost_applied: bool,
}

#[derive(Clone, PartialEq, Eq, Hash, Debug)]
pub enum Act {
    Seek { ty: IntTy, pos: u128, neg: bool },
    Apply(usize),
    CurPos(IntTy),
}

impl Act {
    pub fn to_json(&self) -> Value {
        match self {
            Act::Seek { ty, pos, neg } => json!({"op":"try_seek","ty":ty.name(),"pos":pos.to_string(),"neg":neg}),
            Act::Apply(n) => json!({"op":"try_apply_keystream","n":n}),
            Act::CurPos(ty) => json!({"op":"try_current_pos","ty":ty.name()}),
        }
    }
    pub fn from_json(v: &Value) -> Act {
        match v["op"].as_str().unwrap() {
            "try_seek" => Act::Seek { ty: IntTy::parse(v["ty"].as_str().unwrap()), pos: v["pos"].as_str().unwrap().parse().unwrap(), neg: v["neg"].as_bool().unwrap() },
            "try_apply_keystream" => Act::Apply(v["n"].as_u64().unwrap() as usize),
            "try_current_pos" => Act::CurPos(IntTy::parse(v["ty"].as_str().unwrap())),
            o => panic!("bad op {}", o),
        }
    }
}

pub struct ChSys<K: KindInternals> {
    pub key: [u8; 32],
    pub nonce: Vec<u8>,
    pub stream: Stream,
    /// half-open byte windows [a, b); a state is expanded iff its position lies in one of them
    pub windows: Vec<(u128, u128)>,
    pub menu: Vec<Act>,
    pub none_menu: Vec<Act>,
    pub canonical: bool,
    pub inits: Vec<St>,
    ks: HashMap<u64, [u8; 64]>,
    _k: PhantomData<K>,
}

pub const END_IETF: u128 = 1 << 38;

impl<K: KindInternals> ChSys<K> {
    pub fn limit(&self) -> u128 {
        self.stream.limit()
    }
    fn block(&self, i: u64) -> [u8; 64] {
        match self.ks.get(&i) {
            Some(b) => *b,
            None => self.stream.block(i),
        }
    }
    fn keystream(&self, pos: u128, n: usize) -> Vec<u8> {
        let mut out = Vec::with_capacity(n);
        let mut p = pos;
        let end = pos + n as u128;
        while p < end {
            let b = self.block((p / 64) as u64);
            let o = (p % 64) as usize;
            let k = std::cmp::min(64 - o, (end - p) as usize);
            out.extend_from_slice(&b[o..o + k]);
            p += k as u128;
        }
        out
    }
    fn canon(&self, s: Snap) -> Snap {
        s
    }
    fn in_window(&self, p: u128) -> bool {
        self.windows.iter().any(|(a, b)| *a <= p && p < *b)
    }

    pub fn new(key: [u8; 32], nonce: Vec<u8>, w: u64, canonical: bool, c11: bool, dense_apply: usize) -> ChSys<K> {
        let stream = Stream::new(K::LAYOUT, K::DROUNDS, &key, &nonce);
        let wb = 64 * w as u128;
        let two64: u128 = 1 << 64;
        let mut windows: Vec<(u128, u128)> = vec![(0, wb)];
        if K::LAYOUT == Layout::Ietf {
            windows.push((END_IETF - wb, END_IETF + 1));
        } else {
            windows.push((END_IETF - wb, END_IETF + wb));
            windows.push((two64 - wb, two64));
        }
        let mut menu = Vec::new();
        // dense seeks through u64
        for (a, b) in &windows {
            let mut p = *a;
            while p < *b && p < two64 {
                menu.push(Act::Seek { ty: IntTy::U64, pos: p, neg: false });
                p += 1;
            }
        }
        // every other integer type on a sparse set of values
        let mut sparse: Vec<u128> = vec![0, 1, 5, 63, 64, 65, 127, 128, 255, 256, 319];
        for (a, b) in &windows {
            sparse.extend_from_slice(&[*a, *a + 1, *a + 63, *b - 64, *b - 1]);
        }
        for ty in INT_TYS {
            if ty == IntTy::U64 {
                continue;
            }
            let mut vals = sparse.clone();
            vals.push(ty.max());
            if ty.max() > 64 { vals.push(ty.max() - 64); }
            for v in vals {
                if v <= ty.max() {
                    menu.push(Act::Seek { ty, pos: v, neg: false });
                }
            }
        }
        menu.push(Act::Seek { ty: IntTy::I32, pos: 1, neg: true });
        menu.push(Act::Seek { ty: IntTy::U128, pos: two64, neg: false });
        menu.push(Act::Seek { ty: IntTy::U128, pos: two64 + 64, neg: false });
        menu.push(Act::Seek { ty: IntTy::U64, pos: u64::MAX as u128, neg: false });
        if K::LAYOUT == Layout::Ietf {
            let past: Vec<u128> = if c11 { (END_IETF - 64..=END_IETF + 130).collect() } else { vec![END_IETF, END_IETF + 1, END_IETF + 63, END_IETF + 64, END_IETF + 65, END_IETF + 128] };
            for p in past {
                for ty in [IntTy::U64, IntTy::U128, IntTy::Usize] {
                    menu.push(Act::Seek { ty, pos: p, neg: false });
                }
            }
        }
        for n in 0..=dense_apply {
            menu.push(Act::Apply(n));
        }
        // a few long requests (several wide chunks in one call); their successors leave the windows
        for n in [1024usize, 2051, 4099] {
            menu.push(Act::Apply(n));
        }
        if c11 {
            // requests far beyond the end, and up to two wide chunks past it
            for n in [dense_apply + 1, dense_apply + 64, dense_apply + 256, dense_apply + 512, 4096] {
                menu.push(Act::Apply(n));
            }
        }
        for ty in INT_TYS {
            menu.push(Act::CurPos(ty));
        }
        menu.sort_by_key(|a| match a { Act::Seek { ty, pos, neg } => (0, *pos, *ty as usize, *neg as usize), Act::Apply(n) => (1, *n as u128, 0, 0), Act::CurPos(t) => (2, 0, *t as usize, 0) });
        menu.dedup();
        let mut none_menu = vec![Act::Apply(0), Act::Apply(1), Act::Apply(65), Act::CurPos(IntTy::U64)];
        for (a, _) in &windows {
            none_menu.push(Act::Seek { ty: IntTy::U64, pos: *a, neg: false });
            none_menu.push(Act::Seek { ty: IntTy::U64, pos: *a + 70, neg: false });
        }
        // keystream cache
        let mut ks = HashMap::new();
        let margin = (dense_apply as u64 + 4200) / 64 + 3;
        for (a, b) in &windows {
            let first = (*a / 64) as u64;
            let last = ((*b + 63) / 64) as u64 + margin;
            let cap = (stream.limit() / 64) as u128;
            for i in first..=last {
                if (i as u128) < cap {
                    ks.insert(i, stream.block(i));
                }
            }
        }
        let c = K::new(&key, &nonce);
        let mut sys = ChSys { key, nonce, stream, windows, menu, none_menu, canonical, inits: vec![], ks, _k: PhantomData };
        let s0 = St { snap: sys.canon(K::snap(&c)), pos: Some(0), lost_applied: false };
        sys.inits.push(s0);
        if c11 && K::LAYOUT != Layout::Ietf {
            // "start from elsewhere": the state after 2^64 - k blocks, entered through the public
            // fields; legitimate because it satisfies len == -counter (mod 2^64), fresh == false.
            let top: u128 = 1 << 70;
            sys.windows.push((top - 64 * (w as u128 + 1), top + 1));
            for i in 1..=w + 2 {
                let bi = 0u64.wrapping_sub(i);
                sys.ks.insert(bi, sys.stream.block(bi));
            }
            for k in 0..=w {
                let mut c = K::new(&sys.key, &sys.nonce);
                let mut sn = K::snap(&c);
                sn.d0 = 0u64.wrapping_sub(k);
                sn.len = k;
                sn.fresh = false;
                sn.have = 0;
                K::restore(&mut c, &sn);
                let st = St { snap: sys.canon(K::snap(&c)), pos: Some(top - 64 * k as u128), lost_applied: false };
                sys.inits.push(st);
            }
        }
        sys
    }

    fn rebuild(&self, s: &St) -> K::C {
        let mut c = K::new(&self.key, &self.nonce);
        K::restore(&mut c, &s.snap);
        c
    }

    fn key_intact(&self, c: &K::C) -> bool {
        let mut twin = K::new(&self.key, &self.nonce);
        let sn = K::snap(c);
        K::chacha_mut(&mut twin).set_stream_param(0, sn.d0);
        K::chacha_mut(&mut twin).set_stream_param(1, sn.d1);
        K::chacha(&twin) == K::chacha(c)
    }

    fn bad(&self, cls: &str, detail: String) -> Step<St> {
        Step::Bad { sig: format!("chacha:{}:{}", K::NAME, cls), detail }
    }
}

impl<K: KindInternals> Sys for ChSys<K> {
    type S = St;
    type A = Act;
    fn init(&self) -> Vec<St> {
        self.inits.clone()
    }
    fn actions(&self, s: &St) -> Vec<Act> {
        if s.pos.is_some() { self.menu.clone() } else { self.none_menu.clone() }
    }
    fn expandable(&self, s: &St) -> bool {
        match s.pos {
            Some(p) => self.in_window(p),
            None => !s.lost_applied,
        }
    }
    fn class(&self, s: &St, a: &Act, st: &Step<St>) -> Option<String> {
        let hv = if s.snap.have < 0 { "lazy" } else if s.snap.have == 0 { "empty" } else { "buffered" };
        let res = match st { Step::Next(n) => if n.pos == s.pos { "same-pos" } else { "moved" }, Step::Bad { .. } => "bad", Step::Skip => "skip" };
        let op = match a { Act::Seek { .. } => "seek", Act::Apply(_) => "apply", Act::CurPos(_) => "curpos" };
        Some(format!("{}/{}/{}", hv, op, res))
    }
    fn step(&self, s: &St, a: &Act) -> Step<St> {
        let mut c = self.rebuild(s);
        let limit = self.limit();
        let two64: u128 = 1 << 64;
        let next_pos: Option<u128>;
        match a {
            Act::Seek { ty, pos, neg } => {
                let r = guarded(|| K::try_seek(&mut c, *ty, *pos, *neg));
                let in_range = !*neg && *pos < two64 && *pos <= limit;
                match r {
                    Err(p) => {
                        let cls = if in_range { "seek-in-range-panic" } else if *neg { "seek-negative-panic" } else { "seek-past-end-panic" };
                        return self.bad(&format!("{}:{}", cls, panic_class(&p)), format!("try_seek::<{}>({}{}) panicked: {}", ty.name(), if *neg { "-" } else { "" }, pos, p));
                    }
                    Ok(Ok(())) => {
                        if *neg || (*pos > limit) {
                            return self.bad("seek-past-end-accepted", format!("try_seek::<{}>({}) returned Ok beyond the {}-byte keystream", ty.name(), pos, limit));
                        }
                        next_pos = Some(*pos);
                    }
                    Ok(Err(_)) => {
                        if in_range {
                            return self.bad("seek-in-range-refused", format!("try_seek::<{}>({}) returned Err for an in-range position", ty.name(), pos));
                        }
                        next_pos = None;
                    }
                }
            }
            Act::Apply(n) => {
                let n = *n;
                let pat = data_pattern(n);
                let mut buf = vec![0xc3u8; 64 + n + 64];
                buf[64..64 + n].copy_from_slice(&pat);
                let r = guarded(|| c.try_apply_keystream(&mut buf[64..64 + n]));
                let canary_ok = buf[..64].iter().all(|b| *b == 0xc3) && buf[64 + n..].iter().all(|b| *b == 0xc3);
                if !canary_ok {
                    return self.bad("apply-wrote-outside", format!("apply({}) changed bytes outside the slice", n));
                }
                match (r, s.pos) {
                    (Err(p), _) => return self.bad(&format!("apply-panic:{}", panic_class(&p)), format!("try_apply_keystream({} bytes) at position {:?} panicked: {}", n, s.pos, p)),
                    (Ok(res), None) => {
                        if res.is_err() && buf[64..64 + n] != pat[..] {
                            return self.bad("failed-apply-modified-data", format!("apply({}) returned Err but changed the data", n));
                        }
                        next_pos = None;
                    }
                    (Ok(res), Some(pos)) => {
                        let fits = pos + n as u128 <= limit;
                        // a 64-bit-counter request that runs past byte 2^64 is not "expressible in 64 bits": Ok or Err accepted
                        let lenient = K::LAYOUT != Layout::Ietf && pos < two64 && pos + n as u128 > two64 && fits;
                        match res {
                            Ok(()) => {
                                if !fits {
                                    return self.bad("apply-past-end-accepted", format!("apply({}) at {} runs past the {}-byte keystream but returned Ok", n, pos, limit));
                                }
                                let ks = self.keystream(pos, n);
                                for i in 0..n {
                                    if buf[64 + i] != pat[i] ^ ks[i] {
                                        return self.bad("keystream-mismatch", format!("apply({}) at position {}: byte {} (absolute {}) got {:02x} want {:02x}", n, pos, i, pos + i as u128, buf[64 + i], pat[i] ^ ks[i]));
                                    }
                                }
                                next_pos = Some(pos + n as u128);
                                // the infallible entry point (provided method StreamCipher::apply_keystream, which an
                                // impl may override) must do exactly what try_apply_keystream did: same bytes,
                                // same state afterwards
                                let mut twin = self.rebuild(s);
                                let mut buf2 = vec![0xc3u8; 64 + n + 64];
                                buf2[64..64 + n].copy_from_slice(&pat);
                                match guarded(|| twin.apply_keystream(&mut buf2[64..64 + n])) {
                                    Err(p) => return self.bad(&format!("apply_keystream-panic:{}", panic_class(&p)), format!("apply_keystream({} bytes) at position {} panicked where try_apply_keystream returned Ok: {}", n, pos, p)),
                                    Ok(()) => {
                                        if buf2 != buf {
                                            return self.bad("apply_keystream-differs", format!("apply_keystream({}) at position {} produced other bytes than try_apply_keystream", n, pos));
                                        }
                                        if K::snap(&twin) != K::snap(&c) {
                                            return self.bad("apply_keystream-state-differs", format!("after apply_keystream({}) at position {} the cipher's state differs from the state after try_apply_keystream({}) (same bytes were produced)", n, pos, n));
                                        }
                                    }
                                }
                            }
                            Err(_) => {
                                if fits && !lenient {
                                    return self.bad("spurious-exhaustion", format!("apply({}) at position {} fits inside the {}-byte keystream but returned Err", n, pos, limit));
                                }
                                if buf[64..64 + n] != pat[..] {
                                    return self.bad("failed-apply-modified-data", format!("apply({}) at {} returned Err but changed the data", n, pos));
                                }
                                next_pos = Some(pos);
                            }
                        }
                    }
                }
            }
            Act::CurPos(ty) => {
                let before = K::snap(&c);
                let r = guarded(|| K::try_current_pos(&c, *ty));
                match (r, s.pos) {
                    (Err(p), _) => return self.bad(&format!("current-pos-panic:{}", panic_class(&p)), format!("try_current_pos::<{}>() panicked: {}", ty.name(), p)),
                    (Ok(_), None) => {}
                    (Ok(got), Some(pos)) => {
                        let want = if pos <= ty.max() { Some(pos) } else { None };
                        if got.clone().ok() != want {
                            return self.bad("current-pos-wrong", format!("try_current_pos::<{}>() = {:?}, absolute position is {}", ty.name(), got.ok(), pos));
                        }
                    }
                }
                if K::snap(&c) != before {
                    return self.bad("current-pos-mutated", "try_current_pos changed the cipher state".into());
                }
                next_pos = s.pos;
            }
        }
        if !self.key_intact(&c) {
            return self.bad("key-modified", format!("{:?} changed key words of the state", a));
        }
        // The words of `d` that hold the nonce / stream id never change in a correct history. If they
        // did, nothing is flagged on that ground alone: the history is continued by seek(0); apply(64)
        // on a copy and only an observable difference from block 0 is a violation (it also keeps a
        // drifting nonce from making the state space infinite).
        {
            let sn = K::snap(&c);
            let i = &self.inits[0].snap;
            let drift = sn.d1 != i.d1 || (K::LAYOUT == Layout::Ietf && (sn.d0 >> 32) != (i.d0 >> 32));
            if drift {
                let mut probe = K::new(&self.key, &self.nonce);
                K::restore(&mut probe, &sn);
                let mut buf = [0u8; 64];
                let r = guarded(|| {
                    K::try_seek(&mut probe, IntTy::U64, 0, false).is_ok() && probe.try_apply_keystream(&mut buf).is_ok()
                });
                let b0 = self.block(0);
                if r != Ok(true) || buf != b0 {
                    return self.bad("keystream-mismatch", format!("after {:?} (position {:?}), seek(0); apply(64) does not give block 0 of this key/nonce: got {}.. want {}.. (nonce / stream-id words of the state changed)", a, next_pos, vref::hex(&buf[..8]), vref::hex(&b0[..8])));
                }
            }
        }
        let lost_applied = next_pos.is_none() && (s.lost_applied || matches!(a, Act::Apply(_)));
        Step::Next(St { snap: self.canon(K::snap(&c)), pos: next_pos, lost_applied })
    }
}

pub struct Cfg {
    /// 0 = patterned nonce, 1 = all-ones nonce (a carry into a nonce / stream-id word then overflows it)
    pub nonce_variant: u8,
    pub max_states: usize,
    pub max_wall_s: u64,
    pub stateright: u8,
    pub w: u64,
    pub canonical: bool,
    pub c11: bool,
    pub dense_apply: usize,
    pub max_depth: usize,
}

fn nonce_variant(v: u8, len: usize) -> Vec<u8> {
    match v {
        0 => nonce_pattern(2, len),
        _ => vec![0xff; len],
    }
}

fn run_kind<K: KindInternals>(rep: &mut Report, cfg: &Cfg) {
    let sys = std::sync::Arc::new(ChSys::<K>::new(key_pattern(2), nonce_variant(cfg.nonce_variant, K::NONCE_LEN), cfg.w, cfg.canonical, cfg.c11, cfg.dense_apply));
    CANONICAL_KEY.store(cfg.canonical, std::sync::atomic::Ordering::SeqCst);
    let t0 = std::time::Instant::now();
    let out = bfs_capped(&*sys, cfg.max_depth, cfg.max_states, std::time::Duration::from_secs(cfg.max_wall_s));
    CANONICAL_KEY.store(false, std::sync::atomic::Ordering::SeqCst);
    let secs = t0.elapsed().as_secs_f64();
    let mut sr = serde_json::Value::Null;
    if out.capped.is_none() && out.bad.is_empty() && cfg.stateright >= 1 && (K::NAME == "Ietf" || K::NAME == "ChaCha20" || (cfg.stateright == 2 && K::NAME == "XChaCha8")) {
        // independent engine + determinism, always with the exact key: stateright with 16 worker
        // threads (thorough: also with 1) against the own BFS on the same system (quick: a 2-block
        // window system, so that it stays cheap)
        let (xsys, mine_states, bad_mine) = if cfg.canonical {
            let x = std::sync::Arc::new(ChSys::<K>::new(key_pattern(2), nonce_variant(cfg.nonce_variant, K::NONCE_LEN), 2, false, cfg.c11, 64 * 3));
            let o = bfs(&*x, cfg.max_depth, 20_000_000);
            let b: u64 = o.bad.iter().map(|b| b.count).sum();
            (x, o.unique_states, b)
        } else {
            (sys.clone(), out.unique_states, out.bad.iter().map(|b| b.count).sum())
        };
        let (n16, b16) = crate::srcheck::explore(xsys.clone(), 16);
        // single-threaded stateright run (determinism): on the small system only, it is slow
        let (n1, b1) = if cfg.stateright == 2 {
            let small = std::sync::Arc::new(ChSys::<K>::new(key_pattern(2), nonce_variant(cfg.nonce_variant, K::NONCE_LEN), 2, false, cfg.c11, 64 * 3));
            let o = bfs(&*small, cfg.max_depth, 20_000_000);
            let (s1, sb1) = crate::srcheck::explore(small.clone(), 1);
            let ob: u64 = o.bad.iter().map(|b| b.count).sum();
            if s1 != o.unique_states || sb1 != ob {
                rep.violation("chacha:machinery:explorer-disagreement", format!("{}: 2-block system: own BFS {} states / {} violating transitions, stateright (1 thread) {} / {}", K::NAME, o.unique_states, ob, s1, sb1), json!({}));
            }
            (n16, b16)
        } else {
            (n16, b16)
        };
        sr = json!({"system": if cfg.canonical { "2-block windows, exact key" } else { "same system, exact key" }, "own_bfs_unique_states": mine_states, "unique_states_1_thread": n1, "unique_states_16_threads": n16, "violating_transitions": b1});
        if n1 != mine_states || n16 != mine_states || b1 != bad_mine || b16 != bad_mine {
            rep.violation("chacha:machinery:explorer-disagreement", format!("{}: own BFS found {} states / {} violating transitions, stateright {} / {} (1 thread) and {} / {} (16 threads)", K::NAME, mine_states, bad_mine, n1, b1, n16, b16), json!({}));
        }
    }
    rep.add("states", out.unique_states as u64);
    rep.add("transitions", out.transitions);
    rep.add("cut_states", out.cut_states as u64);
    if !out.fixpoint {
        rep.exhaustive = false;
    }
    if let Some(c) = &out.capped {
        let mut arr = rep.extra.get("capped").cloned().unwrap_or(json!([]));
        arr.as_array_mut().unwrap().push(json!(format!("{}: {}", K::NAME, c)));
        rep.set("capped", arr);
    }
    let classes: serde_json::Map<String, Value> = {
        let mut v: Vec<_> = out.classes.iter().collect();
        v.sort();
        v.into_iter().map(|(k, n)| (k.clone(), json!(n))).collect()
    };
    let per = json!({
        "kind": K::NAME, "nonce": if cfg.nonce_variant == 0 { "pattern" } else { "all-ones" }, "states": out.unique_states, "transitions": out.transitions, "cut_states": out.cut_states,
        "bfs_depth": out.max_depth, "fixpoint": out.fixpoint, "capped": out.capped, "menu_size": sys.menu.len(), "init_states": sys.inits.len(),
        "windows": sys.windows.iter().map(|(a,b)| format!("[{},{})", a, b)).collect::<Vec<_>>(),
        "outcome_classes": Value::Object(classes), "wall_s": secs, "stateright_crosscheck": sr,
    });
    let mut arr = rep.extra.get("per_kind").cloned().unwrap_or(json!([]));
    arr.as_array_mut().unwrap().push(per);
    rep.set("per_kind", arr);
    for p in out.sample_paths.iter() {
        rep.sample(json!({"kind": K::NAME, "trace": p.iter().map(|a| a.to_json()).collect::<Vec<_>>()}));
    }
    for b in out.bad {
        let replay = json!({"engine":"H","check": rep.prop, "kind": K::NAME, "config": rep.config, "w": cfg.w, "canonical": cfg.canonical, "c11": cfg.c11, "dense_apply": cfg.dense_apply,
            "nonce_variant": cfg.nonce_variant, "init_index": b.init_index, "ops": b.path.iter().map(|a| a.to_json()).collect::<Vec<_>>() });
        rep.violations.insert(b.sig.clone(), Violation { sig: b.sig.clone(), detail: format!("{} (after {} earlier calls)", b.detail, b.path.len() - 1), replay, count: b.count });
    }
}

pub fn run(prop: &str, tier: &str, config: &str) -> Report {
    let mut rep = Report::new(prop, tier, config);
    let c11 = prop == "C11";
    let thorough = tier == "thorough";
    let w: u64 = std::env::var("VH_W").ok().and_then(|s| s.parse().ok()).unwrap_or(9);
    let mut cfg = Cfg { nonce_variant: 0, max_states: if thorough { 4_000_000 } else { 400_000 }, max_wall_s: if thorough { 1800 } else { 90 }, stateright: if thorough { 2 } else { 1 }, w, canonical: !thorough, c11, dense_apply: (64 * (w + 1)) as usize, max_depth: 64 };
    rep.rule = format!("explicit-state BFS on the real cipher object; state key = (have,len,fresh,out[64],all four d words via get_stream_param,model position){}; menu identical in every state: try_seek to every byte position of every window through u64 plus a sparse set through u8,u16,u32,u128,usize,i32 (incl. -1, type maxima, beyond-the-end values), try_apply_keystream(n) for every n in 0..={}, try_current_pos through all 7 integer types; windows of {} blocks at 0, at 2^38 bytes (IETF end / low-counter-word carry) and at 2^64 bytes{}; states whose position leaves the windows are kept but not expanded; run to fixpoint; the whole exploration is repeated with an all-ones nonce (quick: 4-block windows)",
        if cfg.canonical { "; dedup key ignores the dead part of `out` (each stored state keeps the real bytes of the first execution reaching it)" } else { " (exact key)" }, cfg.dense_apply, w,
        if c11 { "; C11 adds dense seeks around the IETF end, oversized requests, and start states after 2^64-k blocks (k=0..=w) entered through the public fields" } else { "" });
    crate::for_each_kind!(run_kind, &mut rep, &cfg);
    // second nonce: all ones (any carry into a nonce / stream-id word overflows it), smaller windows
    cfg.nonce_variant = 1;
    if !thorough {
        cfg.w = std::cmp::min(cfg.w, 4);
        cfg.dense_apply = (64 * (cfg.w + 1)) as usize;
    }
    cfg.stateright = 0;
    crate::for_each_kind!(run_kind, &mut rep, &cfg);
    crate::chlive::run_into(&mut rep, tier);
    let st = rep.extra.get("states").and_then(|v| v.as_u64()).unwrap_or(0);
    let tr = rep.extra.get("transitions").and_then(|v| v.as_u64()).unwrap_or(0);
    rep.evaluations = tr;
    rep.nontrivial = st;
    rep.set("traces_validated_against_impl", json!(tr));
    rep.assumptions.push("one key and two nonces (a pattern, and all-ones so that a carry into a nonce word overflows) per cipher type: the bookkeeping under test does not read key values (C01 covers values)".into());
    rep.assumptions.push("positions outside the three windows are represented by the windows (the code has no other position-dependent branch than block-boundary, 2^32-block and end-of-stream arithmetic)".into());
    rep
}

pub fn replay(v: &Value) -> bool {
    fn go<K: KindInternals>(v: &Value) -> Option<bool> {
        if v["kind"].as_str()? != K::NAME {
            return None;
        }
        let sys = ChSys::<K>::new(key_pattern(2), nonce_variant(v["nonce_variant"].as_u64().unwrap_or(0) as u8, K::NONCE_LEN), v["w"].as_u64()?, v["canonical"].as_bool()?, v["c11"].as_bool()?, v["dense_apply"].as_u64()? as usize);
        let mut s = sys.inits[v["init_index"].as_u64()? as usize].clone();
        println!("replay {} on {} from init state #{} (pos {:?})", v["check"], K::NAME, v["init_index"], s.pos);
        for op in v["ops"].as_array()? {
            let a = Act::from_json(op);
            match sys.step(&s, &a) {
                Step::Next(n) => {
                    println!("  {:?} -> ok; have={} len={} fresh={} pos={:?}", a, n.snap.have, n.snap.len, n.snap.fresh, n.pos);
                    s = n;
                }
                Step::Bad { sig, detail } => {
                    println!("  {:?} -> VIOLATION {}: {}", a, sig, detail);
                    return Some(false);
                }
                Step::Skip => {}
            }
        }
        Some(true)
    }
    let mut res = None;
    macro_rules! t { ($k:ty) => { if res.is_none() { res = go::<$k>(v); } }; }
    t!(KIetf); t!(KChaCha8); t!(KChaCha12); t!(KChaCha20); t!(KXChaCha8); t!(KXChaCha12); t!(KXChaCha20);
    res.expect("bad replay file")
}
