//! C04-C07: digests conform to the specifications (Engine E): every message length over several
//! blocks x patterns, one-hot messages at padding-critical lengths, long messages.
use crate::hashers::*;
use crate::report::*;
use digest::Digest;
use rayon::prelude::*;
use serde_json::json;
use std::collections::HashSet;

pub enum Msg {
    Pat(u8, usize),
    OneHot(usize, usize), // length, bit index
}
impl Msg {
    pub fn bytes(&self) -> Vec<u8> {
        match self {
            Msg::Pat(p, n) => pattern(*p, *n),
            Msg::OneHot(n, b) => {
                let mut m = vec![0u8; *n];
                m[b / 8] = 0x80 >> (b % 8);
                m
            }
        }
    }
    pub fn json(&self) -> serde_json::Value {
        match self {
            Msg::Pat(p, n) => json!({"pattern": p, "len": n}),
            Msg::OneHot(n, b) => json!({"onehot_len": n, "bit": b}),
        }
    }
    pub fn class(&self) -> String {
        match self {
            Msg::Pat(p, _) => format!("pat{}", p),
            Msg::OneHot(..) => "onehot".into(),
        }
    }
}

pub fn sweep<H: HK>(rep: &mut Report, check: &str, msgs: Vec<Msg>) {
    let res: Vec<(usize, Result<Vec<u8>, String>, Vec<u8>)> = msgs
        .par_iter()
        .enumerate()
        .map(|(i, m)| {
            let b = m.bytes();
            let got = guarded(|| H::D::digest(&b).to_vec());
            (i, got, H::ref_digest(&b))
        })
        .collect();
    let mut seen: HashSet<u64> = HashSet::new();
    for (i, got, want) in res {
        rep.evaluations += 1;
        let m = &msgs[i];
        if seen.insert(fnv(&want)) {
            rep.nontrivial += 1;
        }
        let replay = json!({"engine":"E","check":check,"hasher":H::NAME,"msg":m.json()});
        if i % 997 == 3 {
            rep.sample(replay.clone());
        }
        let lenclass = |n: usize| -> String { format!("len%{}={}", H::BLOCK, n % H::BLOCK) };
        let n = match m { Msg::Pat(_, n) => *n, Msg::OneHot(n, _) => *n };
        match got {
            Err(p) => rep.violation(&format!("{}:{}:panic:{}", check.to_lowercase(), H::NAME, panic_class(&p)), format!("digest of {:?} panicked: {}", m.json(), p), replay),
            Ok(g) => {
                if g != want {
                    // signature: hasher + whether every message fails or only a length class
                    rep.violation(&format!("{}:{}:digest-mismatch", check.to_lowercase(), H::NAME), format!("message {} ({}): got {} want {}", m.json(), lenclass(n), vref::hex(&g), vref::hex(&want)), replay);
                }
            }
        }
    }
}

fn dense(max: usize, pats: &[u8]) -> Vec<Msg> {
    let mut v = Vec::new();
    for p in pats {
        for n in 0..=max {
            v.push(Msg::Pat(*p, n));
        }
    }
    v
}
fn onehots(lens: &[usize]) -> Vec<Msg> {
    let mut v = Vec::new();
    for n in lens {
        for b in 0..8 * n {
            v.push(Msg::OneHot(*n, b));
        }
    }
    v
}

fn blake_msgs<H: HK>(tier: &str) -> Vec<Msg> {
    let b = H::BLOCK;
    let t = tier == "thorough";
    let mut v = dense(if t { 33 * b + 3 } else { 9 * b + 3 }, &[0, 1, 2]);
    v.extend(onehots(&[b - 9, b - 8, b, 2 * b - 9]));
    let top = if t { 20 } else { 16 };
    for k in 9..=top {
        for d in [-1i64, 0, 1] {
            v.push(Msg::Pat(1, ((1i64 << k) + d) as usize));
        }
    }
    v
}
fn jh_msgs<H: HK>(tier: &str) -> Vec<Msg> {
    let t = tier == "thorough";
    let mut v = dense(if t { 32 * 64 + 2 } else { 8 * 64 + 2 }, &[0, 1, 2]);
    v.extend(onehots(&[64 - 1, 64]));
    for n in [4288 + 64, 65535, 65536, 70001] {
        v.push(Msg::Pat(1, n));
    }
    if t {
        v.extend(onehots(&[1, 55, 56, 65, 128]));
        for n in [1 << 20, (1 << 20) + 63] {
            v.push(Msg::Pat(1, n));
        }
    }
    v
}
fn groestl_msgs<H: HK>(tier: &str) -> Vec<Msg> {
    let b = H::BLOCK;
    let t = tier == "thorough";
    let mut v = dense(if t { 17 * b + 9 } else { 8 * b + 9 }, &[0, 1, 2]);
    v.extend(onehots(&[b - 9, b - 8, b]));
    // block count crosses 255/256 (counter includes padding blocks)
    let around = 255 * b;
    for n in (around - b - 10)..=(around + b + 10) {
        if t || n % 3 == 0 || (n % b) >= b - 10 || (n % b) <= 1 {
            v.push(Msg::Pat(1, n));
        }
    }
    if t {
        let around = 65535 * b;
        for n in [around - b - 9, around - 9, around - 8, around, around + 1, around + b - 9, around + b] {
            v.push(Msg::Pat(1, n));
        }
    }
    v
}
fn skein_msgs<H: HK>(tier: &str) -> Vec<Msg> {
    let b = H::BLOCK;
    let t = tier == "thorough";
    dense(if t { 9 * b + 2 } else { 4 * b + 2 }, &[1])
}

fn run_one<H: HK>(rep: &mut Report, check: &str, tier: &str) {
    let msgs = match H::FAMILY {
        Family::Blake => blake_msgs::<H>(tier),
        Family::Jh => jh_msgs::<H>(tier),
        Family::Groestl => groestl_msgs::<H>(tier),
        Family::Skein => skein_msgs::<H>(tier),
    };
    let n = msgs.len();
    let t0 = std::time::Instant::now();
    sweep::<H>(rep, check, msgs);
    let mut arr = rep.extra.get("per_hasher").cloned().unwrap_or(json!([]));
    arr.as_array_mut().unwrap().push(json!({"hasher": H::NAME, "messages": n, "wall_s": t0.elapsed().as_secs_f64()}));
    rep.set("per_hasher", arr);
}

pub fn run_c04(tier: &str, config: &str) -> Report {
    let mut rep = Report::new("C04", tier, config);
    rep.rule = "4 BLAKE variants x {every length 0..=9B+3 (thorough 33B+3) of zeros / counting bytes / 0xff} + every one-hot message of lengths B-9, B-8, B, 2B-9 + lengths 2^k-1,2^k,2^k+1 for k=9..16 (20); under CPUID dispatch and again under each of SSE2/SSSE3/SSE4.1/AVX/AVX2 forced through hook H1 (generic backend in the no_simd build); digest compared with vref::blake (scalar G, bit-string padding, constants derived from pi and square roots); distinct_nontrivial = distinct expected digests".into();
    run_one::<KBlake224>(&mut rep, "C04", tier);
    run_one::<KBlake256>(&mut rep, "C04", tier);
    run_one::<KBlake384>(&mut rep, "C04", tier);
    run_one::<KBlake512>(&mut rep, "C04", tier);
    // the same (quick) domain under every backend forced through hook H1
    for be in crate::guts::backend_list() {
        if be == 0 {
            continue;
        }
        crate::guts::force_backend(be);
        let mut sub = Report::new("C04", tier, config);
        run_one::<KBlake224>(&mut sub, "C04", "quick");
        run_one::<KBlake256>(&mut sub, "C04", "quick");
        run_one::<KBlake384>(&mut sub, "C04", "quick");
        run_one::<KBlake512>(&mut sub, "C04", "quick");
        rep.evaluations += sub.evaluations;
        for (k, mut v) in sub.violations {
            v.sig = format!("{}:forced-{}", k, crate::guts::BACKENDS[be as usize]);
            rep.violations.insert(v.sig.clone(), v);
        }
    }
    crate::guts::force_backend(0);
    rep
}
pub fn run_c06_digests(rep: &mut Report, tier: &str) {
    run_one::<KJh224>(rep, "C06", tier);
    run_one::<KJh256>(rep, "C06", tier);
    run_one::<KJh384>(rep, "C06", tier);
    run_one::<KJh512>(rep, "C06", tier);
}
pub fn run_c07(tier: &str, config: &str) -> Report {
    let mut rep = Report::new("C07", tier, config);
    rep.rule = "4 Groestl variants x {every length 0..=8B+9 (thorough 17B+9) of three patterns} + every one-hot message of lengths B-9, B-8, B + lengths around 255 blocks (block counter crosses one byte; thorough also 65535 blocks); compared with vref::groestl (byte matrix, generated S-box); distinct_nontrivial = distinct expected digests".into();
    run_one::<KGroestl224>(&mut rep, "C07", tier);
    run_one::<KGroestl256>(&mut rep, "C07", tier);
    run_one::<KGroestl384>(&mut rep, "C07", tier);
    run_one::<KGroestl512>(&mut rep, "C07", tier);
    rep
}
pub fn skein_one<H: HK>(rep: &mut Report, tier: &str) {
    run_one::<H>(rep, "C05", tier);
}

fn replay_one<H: HK>(v: &serde_json::Value) -> bool {
    let m = &v["msg"];
    let msg = if let Some(n) = m.get("len") { Msg::Pat(m["pattern"].as_u64().unwrap() as u8, n.as_u64().unwrap() as usize) } else { Msg::OneHot(m["onehot_len"].as_u64().unwrap() as usize, m["bit"].as_u64().unwrap() as usize) };
    let b = msg.bytes();
    let want = H::ref_digest(&b);
    println!("replay {} {} message {}", v["check"], H::NAME, msg.json());
    println!("  expected {}", vref::hex(&want));
    match guarded(|| H::D::digest(&b).to_vec()) {
        Err(p) => { println!("  observed PANIC {}", p); false }
        Ok(g) => { println!("  observed {}", vref::hex(&g)); g == want }
    }
}
/// plain re-execution of one recorded case of C04-C07 (the 15 hashers of the property list;
/// Skein with other output sizes is replayed through the signature fallback)
pub fn replay(v: &serde_json::Value) -> Option<bool> {
    let name = v["hasher"].as_str()?;
    crate::with_hasher!(name, replay_one, v)
}
