//! C14 (refill4 = 4 x refill, 64-bit counter, every backend) and C15 (stream parameters) on the
//! public block-level API c2_chacha::guts::ChaCha.
use crate::explore::*;
use crate::report::*;
use c2_chacha::guts::ChaCha;
use serde_json::{json, Value};
use std::collections::HashSet;

/// hooks compiled in? (the harness is built with the same --cfg flag as the crates under test; when a
/// change to the repository breaks the hook code itself the driver rebuilds everything without it)
pub const HOOKS: bool = cfg!(cryptocorrosion_verif);
#[cfg(all(cryptocorrosion_verif, not(feature = "nosimd")))]
pub fn force_backend(b: u8) {
    ppv_lite86::x86_64::verif::force_backend(b);
}
#[cfg(not(all(cryptocorrosion_verif, not(feature = "nosimd"))))]
pub fn force_backend(_b: u8) {}
#[cfg(all(cryptocorrosion_verif, not(feature = "nosimd")))]
pub fn taken_counts() -> [usize; 6] {
    ppv_lite86::x86_64::verif::taken_counts()
}
#[cfg(not(all(cryptocorrosion_verif, not(feature = "nosimd"))))]
pub fn taken_counts() -> [usize; 6] {
    [0; 6]
}
pub const BACKENDS: [&str; 6] = ["cpuid", "sse2", "ssse3", "sse41", "avx", "avx2"];
pub fn backend_list() -> Vec<u8> {
    if cfg!(feature = "nosimd") || !HOOKS { vec![0] } else { vec![0, 1, 2, 3, 4, 5] }
}

fn key_n(i: usize) -> [u8; 32] {
    crate::ciphers::key_pattern(i)
}
fn model_block(key: &[u8; 32], ctr: u64, sid: u64, dr: u32) -> [u8; 64] {
    vref::chacha::block(key, [ctr as u32, (ctr >> 32) as u32, sid as u32, (sid >> 32) as u32], dr)
}
fn mk(key: &[u8; 32], ctr: u64, sid: u64) -> ChaCha {
    // stream id through the 8-byte nonce (words 14, 15), counter through parameter 0
    let mut c = ChaCha::new(key, &sid.to_le_bytes());
    c.set_stream_param(0, ctr);
    c
}

pub fn counters(thorough: bool) -> Vec<u64> {
    let mut v = vec![0u64, 1, 2, 3, 4, 5];
    for d in -9i64..=5 {
        v.push(((1i64 << 32) + d) as u64);
    }
    for d in 0..=12u64 {
        v.push(u64::MAX - d);
    }
    v.push(0x0123_4567_89ab_cdef);
    v.push(1 << 63);
    v.push((1 << 63) - 1);
    if thorough {
        for k in 1..32u64 {
            for d in -4i64..=1 {
                v.push(((k << 32) as i64 + d) as u64);
            }
        }
        for b in 0..64 {
            v.push(1 << b);
            v.push((1u64 << b).wrapping_sub(1));
            v.push((1u64 << b).wrapping_sub(3));
        }
    }
    v.sort();
    v.dedup();
    v
}

pub fn run_c14(tier: &str, config: &str) -> Report {
    let mut rep = Report::new("C14", tier, config);
    let th = tier == "thorough";
    rep.rule = "keys {k0,k1, 8 one-word-all-ones, (thorough: 256 one-hot)} x stream ids {0, 2^64-1, 64 one-hot} (decomposed: K x {sid0}, {k0} x SID) x counters {0..5, 2^32-9..2^32+5, 2^64-13..2^64-1, 2^63, ... (thorough: every k*2^32-4..+1, 2^b, 2^b-1, 2^b-3)} x double rounds 0..=10 x backend {cpuid, forced sse2, ssse3, sse4.1, avx, avx2 (hook H1)} (no_simd build: generic backend): refill4 vs four refills (bytes and resulting state by ==), both vs vref::chacha block(counter+i mod 2^64), get_stream_param(0) = counter+4 mod 2^64, get_stream_param(1) unchanged; plus every word over {refill, refill4} of length <= 4 (thorough 6) from each boundary counter; distinct_nontrivial = distinct expected 256-byte outputs".into();
    let mut keys: Vec<[u8; 32]> = vec![key_n(0), key_n(1)];
    for w in 0..8 {
        let mut k = [0u8; 32];
        for i in 0..4 {
            k[4 * w + i] = 0xff;
        }
        keys.push(k);
    }
    if th {
        for b in 0..256 {
            let mut k = [0u8; 32];
            k[b / 8] = 1 << (b % 8);
            keys.push(k);
        }
    }
    let mut sids: Vec<u64> = vec![0, u64::MAX];
    for b in 0..64 {
        sids.push(1 << b);
    }
    let ctrs = counters(th);
    let mut cases: Vec<([u8; 32], u64)> = Vec::new();
    for k in &keys {
        cases.push((*k, 0x1122_3344_5566_7788));
    }
    for s in &sids {
        cases.push((key_n(0), *s));
    }
    let mut seen = HashSet::new();
    let before = taken_counts();
    for be in backend_list() {
        force_backend(be);
        let bname = if cfg!(feature = "nosimd") { "generic" } else { BACKENDS[be as usize] };
        for (key, sid) in &cases {
            for &ctr in &ctrs {
                for dr in 0..=10u32 {
                    rep.evaluations += 1;
                    let mut want = [0u8; 256];
                    for i in 0..4u64 {
                        want[64 * i as usize..64 * (i as usize + 1)].copy_from_slice(&model_block(key, ctr.wrapping_add(i), *sid, dr));
                    }
                    if seen.insert(fnv(&want)) {
                        rep.nontrivial += 1;
                    }
                    let replay = json!({"engine":"E","check":"C14","backend":be,"key":vref::hex(key),"sid":sid.to_string(),"counter":ctr.to_string(),"drounds":dr});
                    if rep.evaluations % 7919 == 1 {
                        rep.sample(replay.clone());
                    }
                    let r = guarded(|| {
                        let mut a = mk(key, ctr, *sid);
                        let mut b = a.clone();
                        let mut wide = [0u8; 256];
                        a.refill4(dr, &mut wide);
                        let mut narrow = [0u8; 256];
                        for i in 0..4 {
                            let mut o = [0u8; 64];
                            b.refill(dr, &mut o);
                            narrow[64 * i..64 * (i + 1)].copy_from_slice(&o);
                        }
                        (wide, narrow, a == b, a.get_stream_param(0), a.get_stream_param(1), b.get_stream_param(0), b.get_stream_param(1))
                    });
                    // signature: which lane / which boundary class fails, per backend
                    let cls = if ctr >= u64::MAX - 12 { "ctr-near-2^64" } else if (ctr as u32) >= 0xffff_fff0 { "ctr-low-word-carry" } else { "ctr-plain" };
                    match r {
                        Err(p) => rep.violation(&format!("c14:{}:{}:panic:{}", bname, cls, panic_class(&p)), format!("panic {} (counter {:#x}, drounds {})", p, ctr, dr), replay),
                        Ok((wide, narrow, steq, a0, a1, b0, b1)) => {
                            if wide != narrow {
                                rep.violation(&format!("c14:{}:{}:refill4-ne-4xrefill", bname, cls), format!("counter {:#x} drounds {}: refill4 and four refills differ", ctr, dr), replay.clone());
                            }
                            if wide != want {
                                let lane = (0..4).find(|i| wide[64 * i..64 * (i + 1)] != want[64 * i..64 * (i + 1)]).unwrap();
                                rep.violation(&format!("c14:{}:{}:refill4-vs-model", bname, cls), format!("counter {:#x} drounds {}: block {} of refill4 differs from the model", ctr, dr, lane), replay.clone());
                            }
                            if narrow != want {
                                rep.violation(&format!("c14:{}:{}:refill-vs-model", bname, cls), format!("counter {:#x} drounds {}: four refills differ from the model", ctr, dr), replay.clone());
                            }
                            if !steq || a0 != ctr.wrapping_add(4) || b0 != ctr.wrapping_add(4) || a1 != *sid || b1 != *sid {
                                rep.violation(&format!("c14:{}:{}:state-after", bname, cls), format!("counter {:#x}: after refill4 param0={:#x} param1={:#x}; after 4 refills param0={:#x} param1={:#x}; states equal: {}", ctr, a0, a1, b0, b1, steq), replay);
                            }
                        }
                    }
                }
            }
        }
        // short sequences over {refill, refill4}
        let maxlen = if th { 6 } else { 4 };
        for &ctr in &[0u64, (1 << 32) - 6, (1 << 32) - 1, u64::MAX - 9, u64::MAX - 3, u64::MAX] {
            for len in 1..=maxlen {
                for word in 0..(1u32 << len) {
                    rep.evaluations += 1;
                    let key = key_n(3);
                    let sid = 0xa5a5_0000_ffff_1234u64;
                    let r = guarded(|| {
                        let mut c = mk(&key, ctr, sid);
                        let mut out = Vec::new();
                        for i in 0..len {
                            if word >> i & 1 == 1 {
                                let mut o = [0u8; 256];
                                c.refill4(7, &mut o);
                                out.extend_from_slice(&o);
                            } else {
                                let mut o = [0u8; 64];
                                c.refill(7, &mut o);
                                out.extend_from_slice(&o);
                            }
                        }
                        (out, c.get_stream_param(0), c.get_stream_param(1))
                    });
                    let replay = json!({"engine":"E","check":"C14","backend":be,"seq_word":word,"seq_len":len,"counter":ctr.to_string()});
                    match r {
                        Err(p) => rep.violation(&format!("c14:{}:seq:panic:{}", bname, panic_class(&p)), format!("sequence {:0w$b} from counter {:#x} panicked: {}", word, ctr, p, w = len), replay),
                        Ok((out, p0, p1)) => {
                            let nblocks = out.len() / 64;
                            let mut want = Vec::new();
                            for i in 0..nblocks as u64 {
                                want.extend_from_slice(&model_block(&key, ctr.wrapping_add(i), sid, 7));
                            }
                            if out != want || p0 != ctr.wrapping_add(nblocks as u64) || p1 != sid {
                                rep.violation(&format!("c14:{}:seq:mismatch", bname), format!("sequence {:0w$b} (1 = refill4) from counter {:#x}: output or final parameters differ from the model", word, ctr, w = len), replay);
                            }
                        }
                    }
                }
            }
        }
    }
    force_backend(0);
    let after = taken_counts();
    let taken: Vec<usize> = (0..6).map(|i| after[i] - before[i]).collect();
    rep.set("forced_dispatch_hits", json!({"sse2": taken[1], "ssse3": taken[2], "sse41": taken[3], "avx": taken[4], "avx2": taken[5]}));
    if !cfg!(feature = "nosimd") && HOOKS && taken[1..].iter().any(|t| *t == 0) {
        rep.violation("c14:machinery:forced-backend-not-taken", "hook H1 reported zero dispatches for a forced backend".into(), json!({}));
    }
    rep
}

// ------------------------------------------------------------------------------------------------
// C15
#[derive(Clone, PartialEq, Eq, Hash, Debug)]
pub struct PSt {
    d0: u64,
    d1: u64,
}
#[derive(Clone, Debug)]
pub enum PAct {
    Set(u32, u64),
    Get(u32),
    Refill,
    Refill4,
}
impl PAct {
    fn json(&self) -> Value {
        match self {
            PAct::Set(p, v) => json!({"op":"set_stream_param","param":p,"value":v.to_string()}),
            PAct::Get(p) => json!({"op":"get_stream_param","param":p}),
            PAct::Refill => json!({"op":"refill"}),
            PAct::Refill4 => json!({"op":"refill4"}),
        }
    }
}
pub struct PSys {
    key: [u8; 32],
    nonce: Vec<u8>,
    values: Vec<u64>,
    horizon: u64,
}
impl PSys {
    fn build(&self, s: &PSt) -> ChaCha {
        let mut c = ChaCha::new(&self.key, &self.nonce);
        c.set_stream_param(0, s.d0);
        c.set_stream_param(1, s.d1);
        c
    }
    fn init_d(&self) -> (u64, u64) {
        let n = &self.nonce;
        let w = |b: &[u8]| u32::from_le_bytes([b[0], b[1], b[2], b[3]]) as u64;
        if n.len() == 12 { (w(&n[0..4]) << 32, w(&n[4..8]) | w(&n[8..12]) << 32) } else { (0, w(&n[0..4]) | w(&n[4..8]) << 32) }
    }
}
impl Sys for PSys {
    type S = PSt;
    type A = PAct;
    fn init(&self) -> Vec<PSt> {
        let (d0, d1) = self.init_d();
        vec![PSt { d0, d1 }]
    }
    fn actions(&self, _s: &PSt) -> Vec<PAct> {
        let mut v = vec![PAct::Get(0), PAct::Get(1), PAct::Refill, PAct::Refill4];
        for p in 0..2 {
            for x in &self.values {
                v.push(PAct::Set(p, *x));
            }
        }
        v
    }
    fn expandable(&self, _s: &PSt) -> bool {
        let _ = self.horizon;
        true
    }
    fn step(&self, s: &PSt, a: &PAct) -> Step<PSt> {
        let mut c = self.build(s);
        // state construction itself is part of the oracle: the initial state must already agree
        let bad = |cls: &str, d: String| Step::Bad { sig: format!("c15:{}", cls), detail: d };
        let (mut d0, mut d1) = (s.d0, s.d1);
        let r = guarded(|| match a {
            PAct::Set(p, v) => {
                c.set_stream_param(*p, *v);
                None
            }
            PAct::Get(p) => Some(c.get_stream_param(*p).to_le_bytes().to_vec()),
            PAct::Refill => {
                let mut o = [0u8; 64];
                c.refill(10, &mut o);
                Some(o.to_vec())
            }
            PAct::Refill4 => {
                let mut o = [0u8; 256];
                c.refill4(10, &mut o);
                Some(o.to_vec())
            }
        });
        let out = match r {
            Err(p) => return bad(&format!("panic:{}", panic_class(&p)), format!("{:?} panicked: {}", a, p)),
            Ok(o) => o,
        };
        match a {
            PAct::Set(p, v) => {
                if *p == 0 { d0 = *v } else { d1 = *v }
            }
            PAct::Get(p) => {
                let want = if *p == 0 { d0 } else { d1 };
                if out.as_ref().unwrap()[..] != want.to_le_bytes()[..] {
                    return bad("get-wrong", format!("get_stream_param({}) returned {} want {:#x}", p, vref::hex(out.as_ref().unwrap()), want));
                }
            }
            PAct::Refill | PAct::Refill4 => {
                let n = if matches!(a, PAct::Refill) { 1 } else { 4 };
                let mut want = Vec::new();
                for i in 0..n {
                    want.extend_from_slice(&model_block(&self.key, d0.wrapping_add(i), d1, 10));
                }
                if out.as_ref().unwrap() != &want {
                    return bad("output-vs-direct-state", format!("{:?} from counter {:#x} stream id {:#x}: output differs from the block function on the directly constructed state", a, d0, d1));
                }
                d0 = d0.wrapping_add(n);
            }
        }
        // both parameters read back, key untouched (== against a twin built directly)
        if c.get_stream_param(0) != d0 || c.get_stream_param(1) != d1 {
            return bad("param-isolation", format!("after {:?}: params ({:#x},{:#x}) want ({:#x},{:#x})", a, c.get_stream_param(0), c.get_stream_param(1), d0, d1));
        }
        let twin = self.build(&PSt { d0, d1 });
        if twin != c {
            return bad("key-modified", format!("after {:?} the state differs from a directly built state with the same parameters", a));
        }
        if d0 as u32 == 0 {
            // "created directly": 12-byte nonce carries words 13..15, counter low word is zero
            let mut n12 = Vec::new();
            n12.extend_from_slice(&((d0 >> 32) as u32).to_le_bytes());
            n12.extend_from_slice(&d1.to_le_bytes());
            let direct = ChaCha::new(&self.key, &n12);
            if direct != c {
                return bad("direct-construction", format!("state with params ({:#x},{:#x}) differs from ChaCha::new(key, 12-byte nonce)", d0, d1));
            }
        }
        Step::Next(PSt { d0, d1 })
    }
}

pub fn run_c15(tier: &str, config: &str) -> Report {
    let mut rep = Report::new("C15", tier, config);
    let th = tier == "thorough";
    let depth = if th { 24 } else { 12 };
    let mut values: Vec<u64> = vec![0, 1, 0xffff_ffff, 1 << 32, 1 << 63, u64::MAX, 0x0123_4567_89ab_cdef];
    if th {
        values.extend_from_slice(&[u64::MAX - 1, u64::MAX - 3, (1 << 32) - 4, 0xffff_ffff_0000_0000]);
    }
    rep.rule = format!("explicit-state BFS to depth {} over {{set_stream_param(p,v): p in 0..2, v in {:x?}}} + get(0), get(1), refill, refill4 from 3 (key, nonce) seeds (8- and 12-byte nonces); state key = the 4 d words (key words checked by == against a directly built twin after every step); oracle: getter values, other parameter untouched, key untouched, refill bytes = vref block of the model words, == against ChaCha::new(key, 12-byte nonce) whenever the low counter word is 0. Predicates: from 4 base states every single-bit change of each of the 12 stored words and every pair of changed words: stream32_eq <=> no difference outside word 12, stream64_eq <=> none outside words 12,13.", depth, values);
    let seeds: Vec<(usize, usize)> = vec![(4, 8), (5, 12), (6, 8)];
    let mut states = 0u64;
    let mut transitions = 0u64;
    for (ki, nl) in seeds {
        let sys = PSys { key: key_n(ki), nonce: crate::ciphers::nonce_pattern(ki, nl), values: values.clone(), horizon: 0 };
        let out = bfs(&sys, depth, 5_000_000);
        states += out.unique_states as u64;
        transitions += out.transitions;
        for p in out.sample_paths.iter().take(1) {
            rep.sample(json!({"seed_key": ki, "nonce_len": nl, "trace": p.iter().map(|a| a.json()).collect::<Vec<_>>()}));
        }
        for b in out.bad {
            let replay = json!({"engine":"H","check":"C15","seed_key":ki,"nonce_len":nl,"ops": b.path.iter().map(|a| a.json()).collect::<Vec<_>>()});
            rep.violations.insert(b.sig.clone(), Violation { sig: b.sig.clone(), detail: b.detail, replay, count: b.count });
        }
    }
    rep.set("states", json!(states));
    rep.set("transitions", json!(transitions));
    rep.set("traces_validated_against_impl", json!(transitions));
    rep.set("bfs_depth", json!(depth));
    // ---- predicates ----
    let mut pred = 0u64;
    let bases: Vec<(usize, u64, u64)> = vec![(0, 0, 0), (1, 5, 0x1111_2222_3333_4444), (2, u64::MAX, u64::MAX), (3, 1 << 32, 1)];
    // logical words 4..=15: 8 key words then d words 12..15
    let build = |key: &[u8; 32], d0: u64, d1: u64| {
        let mut c = ChaCha::new(key, &[0u8; 8]);
        c.set_stream_param(0, d0);
        c.set_stream_param(1, d1);
        c
    };
    let flip = |key: &mut [u8; 32], d0: &mut u64, d1: &mut u64, word: usize, bit: usize| match word {
        4..=11 => key[4 * (word - 4) + bit / 8] ^= 1 << (bit % 8),
        12 => *d0 ^= 1 << bit,
        13 => *d0 ^= 1 << (32 + bit),
        14 => *d1 ^= 1 << bit,
        15 => *d1 ^= 1 << (32 + bit),
        _ => unreachable!(),
    };
    for (ki, d0, d1) in bases {
        let key = key_n(ki);
        let base = build(&key, d0, d1);
        let mut check = |rep: &mut Report, words: &[usize], bits: &[usize]| {
            let (mut k2, mut e0, mut e1) = (key, d0, d1);
            for (w, b) in words.iter().zip(bits.iter()) {
                flip(&mut k2, &mut e0, &mut e1, *w, *b);
            }
            let other = build(&k2, e0, e1);
            let want32 = words.iter().all(|w| *w == 12);
            let want64 = words.iter().all(|w| *w == 12 || *w == 13);
            let r = guarded(|| (base.stream32_eq(&other), other.stream32_eq(&base), base.stream64_eq(&other), other.stream64_eq(&base)));
            pred += 1;
            let replay = json!({"engine":"E","check":"C15","predicate_words":words,"bits":bits,"base":ki});
            match r {
                Err(p) => rep.violation(&format!("c15:pred:panic:{}", panic_class(&p)), p, replay),
                Ok((a, b, c, d)) => {
                    if a != want32 || b != want32 {
                        rep.violation("c15:pred:stream32_eq", format!("states differing in words {:?} (bits {:?}): stream32_eq = {}/{} want {}", words, bits, a, b, want32), replay.clone());
                    }
                    if c != want64 || d != want64 {
                        rep.violation("c15:pred:stream64_eq", format!("states differing in words {:?} (bits {:?}): stream64_eq = {}/{} want {}", words, bits, c, d, want64), replay);
                    }
                }
            }
        };
        check(&mut rep, &[], &[]);
        for w in 4..=15 {
            for b in 0..32 {
                check(&mut rep, &[w], &[b]);
            }
        }
        for w1 in 4..=15 {
            for w2 in (w1 + 1)..=15 {
                for (b1, b2) in [(0, 0), (31, 0), (7, 19)] {
                    check(&mut rep, &[w1, w2], &[b1, b2]);
                }
            }
        }
    }
    rep.set("predicate_cases", json!(pred));
    rep.evaluations = transitions + pred;
    rep.nontrivial = states + pred;
    rep
}
