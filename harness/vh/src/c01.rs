//! C01: ChaCha keystream equals the specified function at every position (Engine E).
use crate::ciphers::*;
use crate::report::*;
use cipher::{StreamCipher, StreamCipherSeek};
use serde_json::json;
use std::collections::HashSet;
use vref::chacha::{Layout, Stream};

fn keys_onehot() -> Vec<[u8; 32]> {
    (0..256).map(|b| { let mut k = [0u8; 32]; k[b / 8] = 1 << (b % 8); k }).collect()
}
fn nonces_onehot(n: usize) -> Vec<Vec<u8>> {
    (0..8 * n).map(|b| { let mut k = vec![0u8; n]; k[b / 8] = 1 << (b % 8); k }).collect()
}
fn word_ones_keys() -> Vec<[u8; 32]> {
    (0..8).map(|w| { let mut k = [0u8; 32]; for i in 0..4 { k[4 * w + i] = 0xff; } k }).collect()
}
fn word_ones_nonces(n: usize) -> Vec<Vec<u8>> {
    (0..n / 4).map(|w| { let mut k = vec![0u8; n]; for i in 0..4 { k[4 * w + i] = 0xff; } k }).collect()
}

pub fn positions(layout: Layout, tier: &str) -> Vec<u64> {
    let mut p: Vec<u64> = vec![0, 1, 63, 64, 65, 255, 256, 257, (1 << 32) - 1, 1 << 32, (1 << 38) - 65, (1 << 38) - 64, (1 << 38) - 1];
    if layout != Layout::Ietf {
        p.extend_from_slice(&[1 << 38, (1 << 38) + 1, (1 << 40) + 7, 1 << 63, u64::MAX - 256, u64::MAX - 63, u64::MAX]);
    }
    // every alignment of a 4-block group with the low-counter-word carry (and with the IETF end)
    for k in 1..=9u64 {
        p.push((1 << 38) - 64 * k);
    }
    p.sort();
    p.dedup();
    if tier == "thorough" {
        for i in 0..=1100u64 {
            p.push(i);
        }
        for i in 0..700u64 {
            p.push((1 << 38) - 700 + i);
        }
        if layout != Layout::Ietf {
            for i in 0..700u64 {
                p.push((1 << 38) + i);
                p.push(u64::MAX - i);
            }
        }
        p.sort();
        p.dedup();
    }
    p
}
pub fn lengths(tier: &str) -> Vec<usize> {
    if tier == "thorough" {
        vec![1, 2, 31, 63, 64, 65, 127, 128, 129, 191, 192, 193, 255, 256, 257, 319, 320, 321, 511, 512, 513, 1031, 2048, 4099, 65543]
    } else {
        vec![1, 63, 64, 65, 255, 256, 257, 320, 513, 1031, 2048, 4099, 65543]
    }
}

struct Ctx<'a> {
    rep: &'a mut Report,
    seen: HashSet<u64>,
}

fn one<K: Kind>(cx: &mut Ctx, part: &str, key: &[u8; 32], nonce: &[u8], pos: u64, len: usize) {
    let s = Stream::new(K::LAYOUT, K::DROUNDS, key, nonce);
    if pos as u128 + len as u128 > s.limit() {
        return; // past the end of the keystream: C11's business
    }
    cx.rep.evaluations += 1;
    let ks = s.bytes(pos as u128, len);
    let pat = data_pattern(len);
    let mut fp = Vec::with_capacity(len + 8);
    fp.extend_from_slice(K::NAME.as_bytes());
    fp.extend_from_slice(&ks);
    if cx.seen.insert(fnv(&fp)) {
        cx.rep.nontrivial += 1;
    }
    let mut buf = vec![0xc3u8; 64 + len + 64];
    buf[64..64 + len].copy_from_slice(&pat);
    let r = guarded(|| {
        let mut c = K::new(key, nonce);
        c.seek(pos);
        c.apply_keystream(&mut buf[64..64 + len]);
    });
    let replay = json!({"engine":"E","check":"C01","kind":K::NAME,"key":vref::hex(key),"nonce":vref::hex(nonce),"pos":pos.to_string(),"len":len});
    cx.rep.sample(replay.clone());
    match r {
        Err(p) => cx.rep.violation(&format!("c01:{}:{}:panic:{}", K::NAME, part, panic_class(&p)), format!("panic {}", p), replay),
        Ok(()) => {
            let canary_ok = buf[..64].iter().all(|b| *b == 0xc3) && buf[64 + len..].iter().all(|b| *b == 0xc3);
            if !canary_ok {
                cx.rep.violation(&format!("c01:{}:{}:wrote-outside-slice", K::NAME, part), "bytes outside the data slice changed".into(), replay.clone());
            }
            let exp: Vec<u8> = pat.iter().zip(ks.iter()).map(|(a, b)| a ^ b).collect();
            if buf[64..64 + len] != exp[..] {
                let first = (0..len).find(|i| buf[64 + i] != exp[*i]).unwrap();
                cx.rep.violation(
                    &format!("c01:{}:{}:keystream-mismatch", K::NAME, part),
                    format!("first differing byte at offset {} (absolute position {}): got {:02x} want {:02x}", first, pos as u128 + first as u128, buf[64 + first], exp[first]),
                    replay,
                );
            }
        }
    }
}

fn run_kind<K: Kind>(cx: &mut Ctx, tier: &str) {
    let thorough = tier == "thorough";
    let n = K::NONCE_LEN;
    let k0 = key_pattern(0);
    let k1 = key_pattern(1);
    let n0 = nonce_pattern(0, n);
    let n1 = nonce_pattern(1, n);
    // (1) key sweep
    let mut ks: Vec<[u8; 32]> = vec![[0u8; 32], [0xffu8; 32]];
    ks.extend(keys_onehot());
    ks.extend(word_ones_keys());
    let kpos: Vec<u64> = if K::LAYOUT == Layout::Ietf { vec![0, (1 << 38) - 320] } else { vec![0, (1 << 38) - 128, (1 << 38) + 64] };
    for k in &ks {
        for p in &kpos {
            one::<K>(cx, "keysweep", k, &n0, *p, 320);
        }
    }
    // (2) nonce sweep
    let mut ns: Vec<Vec<u8>> = vec![vec![0u8; n], vec![0xffu8; n]];
    ns.extend(nonces_onehot(n));
    ns.extend(word_ones_nonces(n));
    for nn in &ns {
        for p in [0u64, 64 * 3 + 5] {
            one::<K>(cx, "noncesweep", &k0, nn, p, 320);
        }
    }
    // (3) position x length grid
    for k in [&k0, &k1] {
        for nn in [&n0, &n1] {
            for p in positions(K::LAYOUT, tier) {
                for l in lengths(tier) {
                    one::<K>(cx, "posgrid", k, nn, p, l);
                }
            }
        }
    }
    if thorough {
        // (4) all two-hot keys, all two-hot nonces (a defect needing two specific bits)
        for a in 0..256 {
            for b in (a + 1)..256 {
                let mut k = [0u8; 32];
                k[a / 8] |= 1 << (a % 8);
                k[b / 8] |= 1 << (b % 8);
                one::<K>(cx, "key2hot", &k, &n0, 64 * 2 + 3, 300);
            }
        }
        for a in 0..8 * n {
            for b in (a + 1)..8 * n {
                let mut nn = vec![0u8; n];
                nn[a / 8] |= 1 << (a % 8);
                nn[b / 8] |= 1 << (b % 8);
                one::<K>(cx, "nonce2hot", &k0, &nn, 64 * 2 + 3, 300);
            }
        }
        // (5) one-hot key x one-hot nonce
        for k in keys_onehot().iter().step_by(1) {
            for nn in nonces_onehot(n).iter() {
                one::<K>(cx, "keyxnonce", k, nn, 0, 128);
            }
        }
    }
}

pub fn run(tier: &str, config: &str) -> Report {
    let mut rep = Report::new("C01", tier, config);
    rep.rule = "union of complete products: {0,1^256,256 one-hot,8 word-ones keys} x 2-3 positions; {0,1^n,all one-hot,word-ones nonces} x 2 positions; {k0,k1} x {n0,n1} x position alphabet x length alphabet; thorough adds all two-hot keys, all two-hot nonces, one-hot key x one-hot nonce, dense positions. For each: fresh cipher, seek(pos), apply_keystream on a patterned buffer between two 64-byte canaries, compared with vref::chacha (scalar RFC 7539 block function / HChaCha). distinct_nontrivial = distinct (type, expected keystream) fingerprints.".into();
    {
        let mut cx = Ctx { rep: &mut rep, seen: HashSet::new() };
        crate::for_each_kind!(run_kind, &mut cx, tier);
    }
    rep.assumptions.push("value space is sampled by a declared alphabet (not all 2^256 keys); control-flow dimensions position mod 64/256 and length are enumerated over the listed sets".into());
    rep.exhaustive = true;
    rep
}

pub fn replay(v: &serde_json::Value) -> bool {
    fn go<K: Kind>(v: &serde_json::Value) -> Option<bool> {
        if v["kind"].as_str()? != K::NAME {
            return None;
        }
        let key = vref::unhex(v["key"].as_str()?);
        let mut k = [0u8; 32];
        k.copy_from_slice(&key);
        let nonce = vref::unhex(v["nonce"].as_str()?);
        let pos: u64 = v["pos"].as_str()?.parse().ok()?;
        let len = v["len"].as_u64()? as usize;
        let s = Stream::new(K::LAYOUT, K::DROUNDS, &k, &nonce);
        let ks = s.bytes(pos as u128, len);
        let pat = data_pattern(len);
        let mut buf = pat.clone();
        let r = guarded(|| {
            let mut c = K::new(&k, &nonce);
            c.seek(pos);
            c.apply_keystream(&mut buf);
        });
        let exp: Vec<u8> = pat.iter().zip(ks.iter()).map(|(a, b)| a ^ b).collect();
        println!("replay C01 {} pos={} len={}", K::NAME, pos, len);
        println!("  expected {}", vref::hex(&exp[..len.min(64)]));
        match r {
            Err(p) => { println!("  observed PANIC {}", p); Some(false) }
            Ok(()) => { println!("  observed {}", vref::hex(&buf[..len.min(64)])); Some(buf == exp) }
        }
    }
    let mut res = None;
    macro_rules! t { ($k:ty) => { if res.is_none() { res = go::<$k>(v); } }; }
    t!(KIetf); t!(KChaCha8); t!(KChaCha12); t!(KChaCha20); t!(KXChaCha8); t!(KXChaCha12); t!(KXChaCha20);
    res.expect("bad replay file")
}
