//! C06: JH. (i) the bit-sliced F8 against the nibble-oriented definition at every input bit
//! position, (ii) digests.
use crate::hashers::*;
use crate::report::*;
use digest::generic_array::GenericArray;
use jh_x86_64::compressor::Compressor;
use rayon::prelude::*;
use serde_json::json;
use std::collections::HashSet;

fn f8_impl(state: &[u8; 128], block: &[u8; 64]) -> [u8; 128] {
    let mut c = Compressor::new(*state);
    c.input(GenericArray::from_slice(block));
    c.finalize()
}

/// F8 instantiated directly for one machine (the public generic `f8_impl::<M>`), bypassing dispatch
fn f8_on<M: ppv_lite86::Machine>(m: M, state: &[u8; 128], block: &[u8; 64]) -> [u8; 128] {
    use ppv_lite86::vec128_storage;
    let mut st: [vec128_storage; 8] = core::array::from_fn(|i| {
        let w: [u32; 4] = core::array::from_fn(|j| u32::from_le_bytes([state[16 * i + 4 * j], state[16 * i + 4 * j + 1], state[16 * i + 4 * j + 2], state[16 * i + 4 * j + 3]]));
        vec128_storage::from(w)
    });
    jh_x86_64::compressor::f8_impl(m, &mut st, block.as_ptr());
    let mut out = [0u8; 128];
    for i in 0..8 {
        let w: [u32; 4] = st[i].into();
        for j in 0..4 {
            out[16 * i + 4 * j..16 * i + 4 * j + 4].copy_from_slice(&w[j].to_le_bytes());
        }
    }
    out
}

#[cfg(not(feature = "nosimd"))]
fn f8_backends() -> Vec<(&'static str, Box<dyn Fn(&[u8; 128], &[u8; 64]) -> [u8; 128] + Sync>)> {
    use ppv_lite86::x86_64::*;
    use ppv_lite86::Machine;
    unsafe {
        vec![
            ("sse2", Box::new(|s, b| f8_on(SSE2::instance(), s, b))),
            ("ssse3", Box::new(|s, b| f8_on(SSSE3::instance(), s, b))),
            ("sse41_avx", Box::new(|s, b| f8_on(SSE41::instance(), s, b))),
            ("avx2", Box::new(|s, b| f8_on(AVX2::instance(), s, b))),
        ]
    }
}
#[cfg(feature = "nosimd")]
fn f8_backends() -> Vec<(&'static str, Box<dyn Fn(&[u8; 128], &[u8; 64]) -> [u8; 128] + Sync>)> {
    use ppv_lite86::Machine;
    vec![("generic", Box::new(|s, b| f8_on(unsafe { ppv_lite86::generic::GenericMachine::instance() }, s, b)))]
}

fn lcg(seed: u64, n: usize) -> Vec<u8> {
    let mut x = seed;
    (0..n).map(|_| { x = x.wrapping_mul(6364136223846793005).wrapping_add(1442695040888963407); (x >> 56) as u8 }).collect()
}

pub fn f8_cases(tier: &str) -> Vec<([u8; 128], [u8; 64], String)> {
    let mut v: Vec<([u8; 128], [u8; 64], String)> = Vec::new();
    let z128 = [0u8; 128];
    let z64 = [0u8; 64];
    v.push((z128, z64, "zero".into()));
    v.push(([0xff; 128], [0xff; 64], "ones".into()));
    v.push(([0xff; 128], z64, "ones-state".into()));
    v.push((z128, [0xff; 64], "ones-block".into()));
    for b in 0..1024 {
        let mut s = z128;
        s[b / 8] = 0x80 >> (b % 8);
        v.push((s, z64, format!("state-bit-{}", b)));
    }
    for b in 0..512 {
        let mut m = z64;
        m[b / 8] = 0x80 >> (b % 8);
        v.push((z128, m, format!("block-bit-{}", b)));
    }
    let nl = if tier == "thorough" { 2048 } else { 64 };
    for i in 0..nl {
        let s = lcg(i as u64 * 2 + 1, 128);
        let m = lcg(i as u64 * 2 + 2, 64);
        let mut sa = [0u8; 128];
        sa.copy_from_slice(&s);
        let mut ma = [0u8; 64];
        ma.copy_from_slice(&m);
        v.push((sa, ma, format!("lcg-{}", i)));
    }
    if tier == "thorough" {
        // one-cold, and one-hot state x one-hot block on a diagonal
        for b in 0..1024 {
            let mut s = [0xffu8; 128];
            s[b / 8] ^= 0x80 >> (b % 8);
            v.push((s, [0xff; 64], format!("state-cold-{}", b)));
            let mut s2 = z128;
            s2[b / 8] = 0x80 >> (b % 8);
            let mut m = z64;
            let mb = (b * 7 + 3) % 512;
            m[mb / 8] = 0x80 >> (mb % 8);
            v.push((s2, m, format!("state-bit-{}-block-bit-{}", b, mb)));
        }
    }
    v
}

pub fn run(tier: &str, config: &str) -> Report {
    let mut rep = Report::new("C06", tier, config);
    rep.rule = "(i) F8 through the public jh_x86_64::compressor::Compressor vs the nibble-oriented vref::jh::f8 for {0, all-ones, every one-hot bit of the 1024-bit state, every one-hot bit of the 512-bit block, 64 (thorough 2048) LCG pairs; thorough adds every one-cold state bit and a state-bit x block-bit diagonal}; (i') the same F8 cases through f8_impl::<M> for every backend instantiated directly (SSE2, SSSE3, SSE4.1/AVX, AVX2; generic in the no_simd build); (ii) under CPUID dispatch and under every backend forced through hook H1: 4 variants x every length 0..=8*64+2 (thorough 32*64+2) of three patterns + one-hot messages of 63 and 64 bytes + 4352, 65535, 65536, 70001 bytes; distinct_nontrivial = distinct expected outputs".into();
    let t = jh_tables();
    let cases = f8_cases(tier);
    let res: Vec<(usize, Result<[u8; 128], String>, [u8; 128])> = cases
        .par_iter()
        .enumerate()
        .map(|(i, (s, m, _))| (i, guarded(|| f8_impl(s, m)), vref::jh::f8(t, s, m)))
        .collect();
    let mut seen = HashSet::new();
    for (i, got, want) in res {
        rep.evaluations += 1;
        if seen.insert(fnv(&want)) {
            rep.nontrivial += 1;
        }
        let (s, m, name) = &cases[i];
        let replay = json!({"engine":"E","check":"C06","f8_case":name,"state":vref::hex(s),"block":vref::hex(m)});
        if i % 400 == 5 {
            rep.sample(replay.clone());
        }
        match got {
            Err(p) => rep.violation(&format!("c06:f8:panic:{}", panic_class(&p)), format!("F8({}) panicked: {}", name, p), replay),
            Ok(g) => {
                if g != want {
                    rep.violation("c06:f8:mismatch", format!("F8({}) got {}.. want {}..", name, vref::hex(&g[..16]), vref::hex(&want[..16])), replay);
                }
            }
        }
    }
    rep.set("f8_cases", json!(cases.len()));
    // the same F8 cases on every backend instantiated directly
    for (bname, f) in f8_backends() {
        let res: Vec<(usize, Result<[u8; 128], String>, [u8; 128])> = cases.par_iter().enumerate().map(|(i, (s, m, _))| (i, guarded(|| f(s, m)), vref::jh::f8(t, s, m))).collect();
        for (i, got, want) in res {
            rep.evaluations += 1;
            let (s, m, name) = &cases[i];
            let replay = json!({"engine":"E","check":"C06","backend":bname,"f8_case":name,"state":vref::hex(s),"block":vref::hex(m)});
            match got {
                Err(p) => rep.violation(&format!("c06:f8:{}:panic:{}", bname, panic_class(&p)), format!("F8({}) on backend {} panicked: {}", name, bname, p), replay),
                Ok(g) => {
                    if g != want {
                        rep.violation(&format!("c06:f8:{}:mismatch", bname), format!("F8({}) on backend {} got {}.. want {}..", name, bname, vref::hex(&g[..16]), vref::hex(&want[..16])), replay);
                    }
                }
            }
        }
    }
    // digests: CPUID dispatch, then every forced backend (hook H1) on the same domain
    for be in crate::guts::backend_list() {
        crate::guts::force_backend(be);
        if be == 0 {
            crate::hsweep::run_c06_digests(&mut rep, tier);
        } else {
            let before = rep.violations.len();
            let mut sub = Report::new("C06", tier, config);
            crate::hsweep::run_c06_digests(&mut sub, "quick");
            rep.evaluations += sub.evaluations;
            for (k, mut v) in sub.violations {
                v.sig = format!("{}:forced-{}", k, crate::guts::BACKENDS[be as usize]);
                rep.violations.insert(v.sig.clone(), v);
            }
            let _ = before;
        }
    }
    crate::guts::force_backend(0);
    rep
}
