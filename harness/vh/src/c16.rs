//! C16: byte-slice APIs are alignment-independent and stay inside their buffers. Buffers live in
//! an arena whose first and last pages are PROT_NONE, so an access outside the slice that leaves
//! the mapped region kills the (sub)process; stray accesses inside the arena are caught by
//! comparing the surrounding pattern. Every API family runs in its own subprocess.
use crate::ciphers::*;
use crate::hashers::*;
use crate::report::*;
use cipher::generic_array::GenericArray;
use cipher::{BlockDecrypt, BlockEncrypt, StreamCipher};
use digest::Digest;
use ppv_lite86::*;
use serde_json::{json, Value};

const PAGE: usize = 4096;
const DATA_PAGES: usize = 3;

pub struct Arena {
    base: *mut u8, // start of the first guard page
}
impl Arena {
    pub fn new() -> Arena {
        unsafe {
            let len = (DATA_PAGES + 2) * PAGE;
            let p = libc::mmap(std::ptr::null_mut(), len, libc::PROT_READ | libc::PROT_WRITE, libc::MAP_PRIVATE | libc::MAP_ANONYMOUS, -1, 0);
            assert!(p != libc::MAP_FAILED);
            let base = p as *mut u8;
            assert_eq!(libc::mprotect(base as *mut _, PAGE, libc::PROT_NONE), 0);
            assert_eq!(libc::mprotect(base.add((DATA_PAGES + 1) * PAGE) as *mut _, PAGE, libc::PROT_NONE), 0);
            Arena { base }
        }
    }
    pub fn data(&self) -> &mut [u8] {
        unsafe { std::slice::from_raw_parts_mut(self.base.add(PAGE), DATA_PAGES * PAGE) }
    }
    pub fn fill(&self) {
        for (i, b) in self.data().iter_mut().enumerate() {
            *b = (i * 167 + 13) as u8 | 0x40;
        }
    }
    /// true iff every byte outside [off, off+len) still holds the fill pattern
    pub fn outside_intact(&self, off: usize, len: usize) -> bool {
        self.data().iter().enumerate().all(|(i, b)| (i >= off && i < off + len) || *b == ((i * 167 + 13) as u8 | 0x40))
    }
}

#[derive(Clone, Copy, Debug)]
pub enum Place {
    /// slice ends at the last mapped byte
    End,
    /// slice starts at the first mapped byte
    Start,
    /// slice starts `a` bytes after a 64-byte-aligned interior address
    Interior(usize),
}
impl Place {
    fn offset(self, len: usize) -> usize {
        match self {
            Place::End => DATA_PAGES * PAGE - len,
            Place::Start => 0,
            Place::Interior(a) => PAGE + 64 + a,
        }
    }
    fn name(self) -> String {
        match self {
            Place::End => "end-abutting".into(),
            Place::Start => "start-abutting".into(),
            Place::Interior(a) => format!("interior+{}", a),
        }
    }
}
pub fn places() -> Vec<Place> {
    let mut v = vec![Place::End, Place::Start];
    for a in 0..64 {
        v.push(Place::Interior(a));
    }
    v
}
pub fn var_lengths() -> Vec<usize> {
    let mut v: Vec<usize> = (0..=130).collect();
    v.extend_from_slice(&[191, 192, 193, 255, 256, 257, 319, 320, 321, 511, 512, 513, 1031]);
    v
}

/// progress record in a shared file mapping, so the parent can tell what was in flight
pub struct Progress {
    p: *mut u8,
}
impl Progress {
    pub fn open(path: &str) -> Progress {
        unsafe {
            let c = std::ffi::CString::new(path).unwrap();
            let fd = libc::open(c.as_ptr(), libc::O_RDWR | libc::O_CREAT, 0o644);
            assert!(fd >= 0);
            assert_eq!(libc::ftruncate(fd, 256), 0);
            let p = libc::mmap(std::ptr::null_mut(), 256, libc::PROT_READ | libc::PROT_WRITE, libc::MAP_SHARED, fd, 0);
            assert!(p != libc::MAP_FAILED);
            Progress { p: p as *mut u8 }
        }
    }
    pub fn set(&self, s: &str) {
        unsafe {
            let b = s.as_bytes();
            let n = b.len().min(250);
            std::ptr::copy_nonoverlapping(b.as_ptr(), self.p, n);
            *self.p.add(n) = 0;
        }
    }
}

struct Cx<'a> {
    rep: &'a mut Report,
    arena: Arena,
    prog: Progress,
    backend: String,
}
impl<'a> Cx<'a> {
    /// run one placement of one API. `reference` = result on an ordinary aligned heap buffer,
    /// `run` = performs the call on the arena slice and returns its result bytes
    fn case(&mut self, api: &str, place: Place, len: usize, reference: &[u8], run: impl FnOnce(&mut [u8]) -> Vec<u8>, init: &[u8], writes: bool) {
        let off = place.offset(len);
        self.arena.fill();
        let slice = &mut self.arena.data()[off..off + len];
        slice.copy_from_slice(init);
        self.prog.set(&format!("{}|{}|{}|{}|{}", api, self.backend, place.name(), (self.arena.data().as_ptr() as usize + off) % 64, len));
        self.rep.evaluations += 1;
        let got = guarded(|| run(slice));
        let replay = json!({"engine":"E","check":"C16","api":api,"backend":self.backend,"placement":place.name(),"len":len});
        let sig = format!("c16:{}:{}", api, self.backend);
        match got {
            Err(p) => self.rep.violation(&format!("{}:panic:{}", sig, panic_class(&p)), format!("{} ({}, {} bytes) panicked: {}", api, place.name(), len, p), replay),
            Ok(g) => {
                if g != reference {
                    self.rep.violation(&format!("{}:result-differs", sig), format!("{} ({}, {} bytes, address mod 64 = {}): result differs from the aligned heap run", api, place.name(), len, (self.arena.data().as_ptr() as usize + off) % 64), replay.clone());
                }
                if !self.arena.outside_intact(off, len) {
                    self.rep.violation(&format!("{}:stray-write", sig), format!("{} ({}, {} bytes): bytes outside the slice changed", api, place.name(), len), replay.clone());
                }
                if !writes && self.arena.data()[off..off + len] != *init {
                    self.rep.violation(&format!("{}:input-modified", sig), format!("{} ({}, {} bytes): the input slice was modified", api, place.name(), len), replay);
                }
            }
        }
    }
}

fn input_pattern(n: usize) -> Vec<u8> {
    (0..n).map(|i| (i * 59 + 31) as u8 ^ 0xa7).collect()
}

fn fam_chacha(cx: &mut Cx) {
    fn one<K: Kind>(cx: &mut Cx) {
        let key = key_pattern(7);
        let nonce = nonce_pattern(7, K::NONCE_LEN);
        for len in var_lengths() {
            let init = input_pattern(len);
            let mut r = init.clone();
            K::new(&key, &nonce).apply_keystream(&mut r);
            for pl in places() {
                cx.case(&format!("{}::apply_keystream", K::NAME), pl, len, &r, |s| { K::new(&key, &nonce).apply_keystream(s); s.to_vec() }, &init, true);
            }
        }
    }
    crate::for_each_kind!(one, cx);
}

fn fam_hash<H: HK>(cx: &mut Cx) {
    // update() from arena slices
    for len in var_lengths() {
        let init = input_pattern(len);
        let r = H::D::digest(&init).to_vec();
        for pl in places() {
            cx.case(&format!("{}::update", H::NAME), pl, len, &r, |s| { let mut d = H::D::new(); d.update(&*s); d.finalize().to_vec() }, &init, false);
        }
    }
    // two pieces, so the second starts at an odd buffer fill
    let len = 2 * H::BLOCK + 3;
    let init = input_pattern(len);
    let r = H::D::digest(&init).to_vec();
    for pl in places() {
        cx.case(&format!("{}::update-two-pieces", H::NAME), pl, len, &r, |s| { let mut d = H::D::new(); d.update(&s[..7]); d.update(&s[7..]); d.finalize().to_vec() }, &init, false);
    }
    // digest written into an arena slice
    let msg = input_pattern(H::BLOCK + 9);
    let r = H::D::digest(&msg).to_vec();
    for pl in places() {
        let zero = vec![0u8; H::OUT];
        cx.case(&format!("{}::finalize_into", H::NAME), pl, H::OUT, &r, |s| {
            let mut d = H::D::new();
            d.update(&msg);
            let out = d.finalize();
            s.copy_from_slice(&out);
            s.to_vec()
        }, &zero, true);
    }
}

fn fam_threefish(cx: &mut Cx) {
    macro_rules! tf {
        ($ty:ty, $n:expr, $name:expr) => {{
            let key = input_pattern($n);
            let c = <$ty>::with_tweak(GenericArray::from_slice(&key), 0x1122334455667788, 0x99aabbccddeeff00);
            let init: Vec<u8> = (0..$n).map(|i| (i * 7 + 1) as u8).collect();
            let mut e = GenericArray::clone_from_slice(&init);
            c.encrypt_block(&mut e);
            let mut d = GenericArray::clone_from_slice(&init);
            c.decrypt_block(&mut d);
            for pl in places() {
                cx.case(concat!($name, "::encrypt_block"), pl, $n, &e, |s| { c.encrypt_block(GenericArray::from_mut_slice(s)); s.to_vec() }, &init, true);
                cx.case(concat!($name, "::decrypt_block"), pl, $n, &d, |s| { c.decrypt_block(GenericArray::from_mut_slice(s)); s.to_vec() }, &init, true);
                // key read from the arena
                let kref = e.to_vec();
                cx.case(concat!($name, "::with_tweak(key)"), pl, $n, &kref, |s| {
                    let c2 = <$ty>::with_tweak(GenericArray::from_slice(s), 0x1122334455667788, 0x99aabbccddeeff00);
                    let mut b = GenericArray::clone_from_slice(&init);
                    c2.encrypt_block(&mut b);
                    b.to_vec()
                }, &key, false);
            }
        }};
    }
    tf!(threefish_cipher::Threefish256, 32, "Threefish256");
    tf!(threefish_cipher::Threefish512, 64, "Threefish512");
    tf!(threefish_cipher::Threefish1024, 128, "Threefish1024");
}

fn fam_jh_compressor(cx: &mut Cx) {
    let st: [u8; 128] = core::array::from_fn(|i| (i * 3 + 5) as u8);
    let init = input_pattern(64);
    let mut c = jh_x86_64::compressor::Compressor::new(st);
    c.input(GenericArray::from_slice(&init));
    let r = c.finalize().to_vec();
    for pl in places() {
        cx.case("jh::Compressor::input", pl, 64, &r, |s| { let mut c = jh_x86_64::compressor::Compressor::new(st); c.input(GenericArray::from_slice(s)); c.finalize().to_vec() }, &init, false);
    }
}

fn vec_io<M: Machine>(cx: &mut Cx, m: M) {
    macro_rules! t {
        ($ty:ty, $n:expr, $name:expr) => {{
            let init = input_pattern($n);
            // reference through an aligned heap buffer
            let v: $ty = m.read_le(&init);
            let mut le = vec![0u8; $n];
            v.write_le(&mut le);
            let vb: $ty = m.read_be(&init);
            let mut be = vec![0u8; $n];
            vb.write_le(&mut be);
            let mut wbe = vec![0u8; $n];
            v.write_be(&mut wbe);
            for pl in places() {
                cx.case(concat!($name, "::read_le"), pl, $n, &le, |s| { let v: $ty = m.read_le(s); let mut o = vec![0u8; $n]; v.write_le(&mut o); o }, &init, false);
                cx.case(concat!($name, "::read_be"), pl, $n, &be, |s| { let v: $ty = m.read_be(s); let mut o = vec![0u8; $n]; v.write_le(&mut o); o }, &init, false);
                let zero = vec![0u8; $n];
                cx.case(concat!($name, "::write_le"), pl, $n, &le, |s| { v.write_le(s); s.to_vec() }, &zero, true);
                cx.case(concat!($name, "::write_be"), pl, $n, &wbe, |s| { v.write_be(s); s.to_vec() }, &zero, true);
            }
        }};
    }
    // wrong-length slices: a panic is fine, an access outside the slice is not
    macro_rules! w {
        ($ty:ty, $n:expr, $name:expr) => {{
            let v: $ty = m.read_le(&input_pattern($n));
            for len in [$n - 1, $n + 1, 0usize, $n / 2] {
                for pl in [Place::End, Place::Start] {
                    let init = input_pattern(len);
                    for (op, writes) in [("read_le", false), ("read_be", false), ("write_le", true), ("write_be", true)] {
                        let off = pl.offset(len);
                        cx.arena.fill();
                        cx.arena.data()[off..off + len].copy_from_slice(&init);
                        cx.prog.set(&format!("{}::{}(wrong length {})|{}|{}|{}|{}", $name, op, len, cx.backend, pl.name(), 0, len));
                        cx.rep.evaluations += 1;
                        let slice = &mut cx.arena.data()[off..off + len];
                        let _ = guarded(|| match op {
                            "read_le" => { let x: $ty = m.read_le(slice); std::hint::black_box(x); }
                            "read_be" => { let x: $ty = m.read_be(slice); std::hint::black_box(x); }
                            "write_le" => v.write_le(slice),
                            _ => v.write_be(slice),
                        });
                        if !cx.arena.outside_intact(off, len) {
                            cx.rep.violation(&format!("c16:{}::{}:{}:wrong-length-stray-write", $name, op, cx.backend), format!("{}::{} on a {}-byte slice (the type has {} bytes) changed bytes outside the slice", $name, op, len, $n), json!({"api": format!("{}::{}", $name, op), "backend": cx.backend, "len": len}));
                        }
                        let _ = writes;
                    }
                }
            }
        }};
    }
    w!(M::u32x4, 16, "u32x4");
    w!(M::u32x4x2, 32, "u32x4x2");
    w!(M::u64x2x2, 32, "u64x2x2");
    w!(M::u64x4, 32, "u64x4");
    w!(M::u32x4x4, 64, "u32x4x4");
    t!(M::u32x4, 16, "u32x4");
    t!(M::u32x4x2, 32, "u32x4x2");
    t!(M::u64x2x2, 32, "u64x2x2");
    t!(M::u64x4, 32, "u64x4");
    t!(M::u32x4x4, 64, "u32x4x4");
}

#[cfg(not(feature = "nosimd"))]
fn fam_vectors(cx: &mut Cx) {
    use ppv_lite86::x86_64::*;
    unsafe {
        cx.backend = "sse2".into();
        vec_io(cx, SSE2::instance());
        cx.backend = "ssse3".into();
        vec_io(cx, SSSE3::instance());
        cx.backend = "sse41_avx".into();
        vec_io(cx, SSE41::instance());
        cx.backend = "avx2".into();
        vec_io(cx, AVX2::instance());
    }
}
#[cfg(feature = "nosimd")]
fn fam_vectors(cx: &mut Cx) {
    cx.backend = "generic".into();
    vec_io(cx, unsafe { ppv_lite86::generic::GenericMachine::instance() });
}

pub const FAMILIES: [&str; 8] = ["chacha", "blake", "groestl", "jh", "skein", "threefish", "jh-compressor", "vectors"];

/// child process: one family (x every forced backend where the family dispatches through ppv-lite86)
pub fn child(family: &str, progress: &str, out: &str) {
    let mut rep = Report::new("C16", "-", "-");
    {
        let mut cx = Cx { rep: &mut rep, arena: Arena::new(), prog: Progress::open(progress), backend: "-".into() };
        let dispatching = matches!(family, "chacha" | "blake" | "jh" | "jh-compressor");
        let backends: Vec<u8> = if dispatching { crate::guts::backend_list() } else { vec![0] };
        for be in backends {
            crate::guts::force_backend(be);
            cx.backend = if cfg!(feature = "nosimd") { "generic".into() } else if dispatching { crate::guts::BACKENDS[be as usize].into() } else { "n/a".into() };
            match family {
                "chacha" => fam_chacha(&mut cx),
                "blake" => { fam_hash::<KBlake224>(&mut cx); fam_hash::<KBlake256>(&mut cx); fam_hash::<KBlake384>(&mut cx); fam_hash::<KBlake512>(&mut cx); }
                "groestl" => { fam_hash::<KGroestl224>(&mut cx); fam_hash::<KGroestl256>(&mut cx); fam_hash::<KGroestl384>(&mut cx); fam_hash::<KGroestl512>(&mut cx); }
                "jh" => { fam_hash::<KJh224>(&mut cx); fam_hash::<KJh256>(&mut cx); fam_hash::<KJh384>(&mut cx); fam_hash::<KJh512>(&mut cx); }
                "skein" => { fam_hash::<KSkein256_32>(&mut cx); fam_hash::<KSkein512_64>(&mut cx); fam_hash::<KSkein1024_128>(&mut cx); }
                "threefish" => fam_threefish(&mut cx),
                "jh-compressor" => fam_jh_compressor(&mut cx),
                "vectors" => fam_vectors(&mut cx),
                o => panic!("unknown family {}", o),
            }
        }
        crate::guts::force_backend(0);
        cx.prog.set("done");
    }
    rep.write(out);
}

pub fn run(tier: &str, config: &str) -> Report {
    let mut rep = Report::new("C16", tier, config);
    rep.rule = "every byte-slice API (apply_keystream x7, Digest::update x15 incl. a two-piece feed, digest written into a slice x15, Threefish encrypt_block/decrypt_block/key x3, jh Compressor::input, Machine::read_le/read_be and write_le/write_be for every StoreBytes vector type x every directly instantiated backend, also with slices of the WRONG length n-1, n+1, 0, n/2 abutting the guard pages, where a panic is accepted and an access outside the slice is not) x placements {slice ends at the last mapped byte before a PROT_NONE page, slice starts at the first mapped byte after a PROT_NONE page, interior at every alignment 0..63} x lengths {0..=130, 191..193, 255..257, 319..321, 511..513, 1031} (variable-length APIs; with the end-abutting placement this gives every start alignment) x forced backend (hook H1) for the dispatching families; oracle: result equals the run on an ordinary heap buffer, bytes outside the slice unchanged, inputs unmodified, process survives (each family in its own subprocess; a signal is reported with the call in flight)".into();
    let exe = std::env::current_exe().unwrap();
    let dir = std::env::temp_dir().join(format!("vh-c16-{}-{}", std::process::id(), config));
    std::fs::create_dir_all(&dir).unwrap();
    let children: Vec<(String, std::process::Child, String, String)> = FAMILIES
        .iter()
        .map(|f| {
            let prog = dir.join(format!("{}.progress", f)).to_string_lossy().to_string();
            let out = dir.join(format!("{}.json", f)).to_string_lossy().to_string();
            let ch = std::process::Command::new(&exe).args(["c16-child", f, &prog, &out]).spawn().unwrap();
            (f.to_string(), ch, prog, out)
        })
        .collect();
    let mut fams = Vec::new();
    for (f, mut ch, prog, out) in children {
        let st = ch.wait().unwrap();
        let in_flight = std::fs::read(&prog).ok().map(|b| String::from_utf8_lossy(&b[..b.iter().position(|x| *x == 0).unwrap_or(b.len())]).to_string()).unwrap_or_default();
        if !st.success() || in_flight != "done" {
            use std::os::unix::process::ExitStatusExt;
            let parts: Vec<&str> = in_flight.split('|').collect();
            let api = parts.first().copied().unwrap_or("?");
            let be = parts.get(1).copied().unwrap_or("?");
            rep.violation(&format!("c16:{}:{}:killed-by-signal", api, be), format!("subprocess for family {} died ({:?}, signal {:?}) while executing {}", f, st.code(), st.signal(), in_flight), json!({"engine":"E","check":"C16","family":f,"in_flight":in_flight}));
            fams.push(json!({"family": f, "died": true, "in_flight": in_flight}));
            continue;
        }
        let v: Value = serde_json::from_str(&std::fs::read_to_string(&out).unwrap()).unwrap();
        rep.evaluations += v["evaluations"].as_u64().unwrap_or(0);
        for x in v["violations"].as_array().unwrap() {
            rep.violations.insert(x["sig"].as_str().unwrap().to_string(), Violation { sig: x["sig"].as_str().unwrap().into(), detail: x["detail"].as_str().unwrap().into(), replay: x["replay"].clone(), count: x["count"].as_u64().unwrap_or(1) });
        }
        fams.push(json!({"family": f, "evaluations": v["evaluations"], "wall_s": v["wall_s"]}));
        rep.sample(json!({"family": f, "api_example": v["violations"].as_array().map(|a| a.len())}));
    }
    let _ = std::fs::remove_dir_all(&dir);
    rep.nontrivial = rep.evaluations;
    rep.set("families", json!(fams));
    rep.samples = vec![json!({"api":"ChaCha20::apply_keystream","backend":"sse2","placement":"end-abutting","len":65}), json!({"api":"Blake512::update","backend":"avx2","placement":"interior+37","len":129}), json!({"api":"u64x4::write_be","backend":"ssse3","placement":"start-abutting","len":32})];
    rep
}
