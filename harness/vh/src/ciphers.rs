//! Uniform access to the seven public ChaCha cipher types (they share one generic struct whose
//! marker types are private, so the harness goes through a trait implemented by macro).
use c2_chacha::guts::ChaCha;
use cipher::errors::{LoopError, OverflowError};
use cipher::generic_array::GenericArray;
use cipher::{NewCipher, StreamCipher, StreamCipherSeek};
use vref::chacha::Layout;

/// Snapshot of the complete public state of a cipher object.
#[derive(Clone, PartialEq, Eq, Hash, Debug)]
pub struct Snap {
    pub have: i8,
    pub len: u64,
    pub fresh: bool,
    pub out: [u8; 64],
    pub d0: u64,
    pub d1: u64,
}

#[derive(Clone, Copy, Debug, PartialEq, Eq, Hash)]
pub enum IntTy {
    U8,
    U16,
    U32,
    U64,
    U128,
    Usize,
    I32,
}
pub const INT_TYS: [IntTy; 7] = [IntTy::U8, IntTy::U16, IntTy::U32, IntTy::U64, IntTy::U128, IntTy::Usize, IntTy::I32];
impl IntTy {
    pub fn max(self) -> u128 {
        match self {
            IntTy::U8 => u8::MAX as u128,
            IntTy::U16 => u16::MAX as u128,
            IntTy::U32 => u32::MAX as u128,
            IntTy::U64 => u64::MAX as u128,
            IntTy::U128 => u128::MAX,
            IntTy::Usize => usize::MAX as u128,
            IntTy::I32 => i32::MAX as u128,
        }
    }
    pub fn name(self) -> &'static str {
        match self {
            IntTy::U8 => "u8",
            IntTy::U16 => "u16",
            IntTy::U32 => "u32",
            IntTy::U64 => "u64",
            IntTy::U128 => "u128",
            IntTy::Usize => "usize",
            IntTy::I32 => "i32",
        }
    }
    pub fn parse(s: &str) -> IntTy {
        *INT_TYS.iter().find(|t| t.name() == s).expect("int type")
    }
}

pub trait Kind: Send + Sync + 'static {
    type C: StreamCipher + StreamCipherSeek;
    const NAME: &'static str;
    const LAYOUT: Layout;
    const DROUNDS: u32;
    const NONCE_LEN: usize;
    fn new(key: &[u8; 32], nonce: &[u8]) -> Self::C;

    /// try_seek with the position given as the named integer type (`neg` => i32 value -pos)
    fn try_seek(c: &mut Self::C, ty: IntTy, pos: u128, neg: bool) -> Result<(), LoopError> {
        match ty {
            IntTy::U8 => c.try_seek(pos as u8),
            IntTy::U16 => c.try_seek(pos as u16),
            IntTy::U32 => c.try_seek(pos as u32),
            IntTy::U64 => c.try_seek(pos as u64),
            IntTy::U128 => c.try_seek(pos),
            IntTy::Usize => c.try_seek(pos as usize),
            IntTy::I32 => c.try_seek(if neg { -(pos as i32) } else { pos as i32 }),
        }
    }
    fn try_current_pos(c: &Self::C, ty: IntTy) -> Result<u128, OverflowError> {
        match ty {
            IntTy::U8 => c.try_current_pos::<u8>().map(|x| x as u128),
            IntTy::U16 => c.try_current_pos::<u16>().map(|x| x as u128),
            IntTy::U32 => c.try_current_pos::<u32>().map(|x| x as u128),
            IntTy::U64 => c.try_current_pos::<u64>().map(|x| x as u128),
            IntTy::U128 => c.try_current_pos::<u128>(),
            IntTy::Usize => c.try_current_pos::<usize>().map(|x| x as u128),
            IntTy::I32 => c.try_current_pos::<i32>().map(|x| x as u128),
        }
    }
}

/// Access to the complete public state of a cipher object (fields of the `state: Buffer` member).
#[cfg(feature = "internals")]
pub trait KindInternals: Kind {
    fn snap(c: &Self::C) -> Snap;
    fn restore(c: &mut Self::C, s: &Snap);
    fn chacha(c: &Self::C) -> &ChaCha;
    fn chacha_mut(c: &mut Self::C) -> &mut ChaCha;
}

macro_rules! kind {
    ($k:ident, $ty:ty, $name:expr, $layout:expr, $dr:expr, $nl:expr) => {
        pub struct $k;
        impl Kind for $k {
            type C = $ty;
            const NAME: &'static str = $name;
            const LAYOUT: Layout = $layout;
            const DROUNDS: u32 = $dr;
            const NONCE_LEN: usize = $nl;
            fn new(key: &[u8; 32], nonce: &[u8]) -> Self::C {
                assert_eq!(nonce.len(), $nl);
                <$ty as NewCipher>::new(GenericArray::from_slice(key), GenericArray::from_slice(nonce))
            }
        }
        #[cfg(feature = "internals")]
        impl KindInternals for $k {
            fn snap(c: &Self::C) -> Snap {
                Snap {
                    have: c.state.have,
                    len: c.state.len,
                    fresh: c.state.fresh,
                    out: c.state.out,
                    d0: c.state.state.get_stream_param(0),
                    d1: c.state.state.get_stream_param(1),
                }
            }
            fn restore(c: &mut Self::C, s: &Snap) {
                c.state.have = s.have;
                c.state.len = s.len;
                c.state.fresh = s.fresh;
                c.state.out = s.out;
                c.state.state.set_stream_param(0, s.d0);
                c.state.state.set_stream_param(1, s.d1);
            }
            fn chacha(c: &Self::C) -> &ChaCha {
                &c.state.state
            }
            fn chacha_mut(c: &mut Self::C) -> &mut ChaCha {
                &mut c.state.state
            }
        }
    };
}

kind!(KIetf, c2_chacha::Ietf, "Ietf", Layout::Ietf, 10, 12);
kind!(KChaCha8, c2_chacha::ChaCha8, "ChaCha8", Layout::Djb, 4, 8);
kind!(KChaCha12, c2_chacha::ChaCha12, "ChaCha12", Layout::Djb, 6, 8);
kind!(KChaCha20, c2_chacha::ChaCha20, "ChaCha20", Layout::Djb, 10, 8);
kind!(KXChaCha8, c2_chacha::XChaCha8, "XChaCha8", Layout::X, 4, 24);
kind!(KXChaCha12, c2_chacha::XChaCha12, "XChaCha12", Layout::X, 6, 24);
kind!(KXChaCha20, c2_chacha::XChaCha20, "XChaCha20", Layout::X, 10, 24);

/// Run a generic function for every cipher kind.
#[macro_export]
macro_rules! for_each_kind {
    ($f:ident $(, $arg:expr)*) => {{
        $f::<$crate::ciphers::KIetf>($($arg),*);
        $f::<$crate::ciphers::KChaCha8>($($arg),*);
        $f::<$crate::ciphers::KChaCha12>($($arg),*);
        $f::<$crate::ciphers::KChaCha20>($($arg),*);
        $f::<$crate::ciphers::KXChaCha8>($($arg),*);
        $f::<$crate::ciphers::KXChaCha12>($($arg),*);
        $f::<$crate::ciphers::KXChaCha20>($($arg),*);
    }};
}

pub fn key_pattern(i: usize) -> [u8; 32] {
    let mut k = [0u8; 32];
    for (j, b) in k.iter_mut().enumerate() {
        *b = (0x31 + 7 * j + 13 * i) as u8 ^ ((j * j) as u8);
    }
    k
}
pub fn nonce_pattern(i: usize, len: usize) -> Vec<u8> {
    (0..len).map(|j| (0xa5 + 11 * j + 29 * i) as u8 ^ ((j * 3) as u8)).collect()
}
/// non-zero data pattern, a function of the buffer index only
pub fn data_pattern(n: usize) -> Vec<u8> {
    (0..n).map(|i| ((i * 37 + 11) % 251) as u8 | 1).collect()
}
