//! C02 / C11, live-object phase: every history of <= D calls over a sparse menu is executed from
//! scratch on a real, never reconstructed cipher object (Engine H, stateless). It complements the
//! keyed explorer (chist.rs) in two ways: it needs no access to the cipher's state fields (so it
//! still runs when a refactoring removes or renames them), and it cannot be blinded by state that a
//! snapshot of the known public fields would not capture (a new field, a thread-local, a static):
//! nothing is ever rebuilt from a snapshot here.
use crate::ciphers::*;
use crate::report::*;
use cipher::StreamCipher;
use rayon::prelude::*;
use serde_json::{json, Value};
use std::collections::HashMap;
use vref::chacha::{Layout, Stream};

#[derive(Clone, Debug, PartialEq)]
pub enum LAct {
    Seek { ty: IntTy, pos: u128, neg: bool },
    Apply(usize),
    /// through the infallible StreamCipher::apply_keystream (only issued when the request fits)
    ApplyPlain(usize),
    CurPos(IntTy),
}
impl LAct {
    pub fn json(&self) -> Value {
        match self {
            LAct::Seek { ty, pos, neg } => json!({"op":"try_seek","ty":ty.name(),"pos":pos.to_string(),"neg":neg}),
            LAct::Apply(n) => json!({"op":"try_apply_keystream","n":n}),
            LAct::ApplyPlain(n) => json!({"op":"apply_keystream","n":n}),
            LAct::CurPos(ty) => json!({"op":"try_current_pos","ty":ty.name()}),
        }
    }
    pub fn from_json(v: &Value) -> LAct {
        match v["op"].as_str().unwrap() {
            "try_seek" => LAct::Seek { ty: IntTy::parse(v["ty"].as_str().unwrap()), pos: v["pos"].as_str().unwrap().parse().unwrap(), neg: v["neg"].as_bool().unwrap() },
            "try_apply_keystream" => LAct::Apply(v["n"].as_u64().unwrap() as usize),
            "apply_keystream" => LAct::ApplyPlain(v["n"].as_u64().unwrap() as usize),
            _ => LAct::CurPos(IntTy::parse(v["ty"].as_str().unwrap())),
        }
    }
}

pub struct Live<K: Kind> {
    pub key: [u8; 32],
    pub nonce: Vec<u8>,
    pub stream: Stream,
    pub menu: Vec<LAct>,
    ks: HashMap<u64, [u8; 64]>,
    _k: std::marker::PhantomData<K>,
}

const END_IETF: u128 = 1 << 38;

impl<K: Kind> Live<K> {
    pub fn new(key: [u8; 32], nonce: Vec<u8>) -> Live<K> {
        let stream = Stream::new(K::LAYOUT, K::DROUNDS, &key, &nonce);
        let two64: u128 = 1 << 64;
        let mut menu = Vec::new();
        let bases: Vec<u128> = vec![0, 1 << 31, 1 << 32, END_IETF, two64];
        let offs: [i128; 12] = [-130, -65, -64, -63, -1, 0, 1, 5, 63, 64, 65, 130];
        let mut ks = HashMap::new();
        for b in &bases {
            for o in offs {
                let p = *b as i128 + o;
                if p >= 0 && (p as u128) < two64 {
                    menu.push(LAct::Seek { ty: IntTy::U64, pos: p as u128, neg: false });
                    let first = (p as u128 / 64) as u64;
                    for i in 0..=10u64 {
                        if let Some(bi) = first.checked_add(i) {
                            if (bi as u128) < stream.limit() / 64 {
                                ks.entry(bi).or_insert_with(|| stream.block(bi));
                            }
                        }
                    }
                }
            }
        }
        menu.push(LAct::Seek { ty: IntTy::U8, pos: 5, neg: false });
        menu.push(LAct::Seek { ty: IntTy::U8, pos: 255, neg: false });
        menu.push(LAct::Seek { ty: IntTy::U16, pos: 300, neg: false });
        menu.push(LAct::Seek { ty: IntTy::U32, pos: u32::MAX as u128, neg: false });
        menu.push(LAct::Seek { ty: IntTy::I32, pos: 1, neg: true });
        menu.push(LAct::Seek { ty: IntTy::I32, pos: i32::MAX as u128, neg: false });
        menu.push(LAct::Seek { ty: IntTy::U128, pos: two64, neg: false });
        menu.push(LAct::Seek { ty: IntTy::U128, pos: END_IETF, neg: false });
        menu.push(LAct::Seek { ty: IntTy::Usize, pos: END_IETF - 10, neg: false });
        for n in [0usize, 1, 5, 59, 63, 64, 65, 70, 128, 191, 256, 257, 320, 513] {
            menu.push(LAct::Apply(n));
        }
        for n in [64usize, 70] {
            menu.push(LAct::ApplyPlain(n));
        }
        for ty in [IntTy::U64, IntTy::U8, IntTy::U128, IntTy::I32] {
            menu.push(LAct::CurPos(ty));
        }
        Live { key, nonce, stream, menu, ks, _k: std::marker::PhantomData }
    }
    fn block(&self, i: u64) -> [u8; 64] {
        match self.ks.get(&i) {
            Some(b) => *b,
            None => self.stream.block(i),
        }
    }
    fn keystream(&self, pos: u128, n: usize) -> Vec<u8> {
        let mut out = Vec::with_capacity(n);
        let (mut p, end) = (pos, pos + n as u128);
        while p < end {
            let b = self.block((p / 64) as u64);
            let o = (p % 64) as usize;
            let k = std::cmp::min(64 - o, (end - p) as usize);
            out.extend_from_slice(&b[o..o + k]);
            p += k as u128;
        }
        out
    }

    /// one call on the live object; returns the new model position or (signature class, detail)
    pub fn exec(&self, c: &mut K::C, pos: Option<u128>, a: &LAct) -> Result<Option<u128>, (String, String)> {
        let limit = self.stream.limit();
        let two64: u128 = 1 << 64;
        match a {
            LAct::Seek { ty, pos: p, neg } => {
                let in_range = !*neg && *p < two64 && *p <= limit;
                match guarded(|| K::try_seek(c, *ty, *p, *neg)) {
                    Err(e) => Err((format!("{}:{}", if in_range { "seek-in-range-panic" } else if *neg { "seek-negative-panic" } else { "seek-past-end-panic" }, panic_class(&e)), format!("try_seek::<{}>({}{}) panicked: {}", ty.name(), if *neg { "-" } else { "" }, p, e))),
                    Ok(Ok(())) => {
                        if *neg || *p > limit {
                            return Err(("seek-past-end-accepted".into(), format!("try_seek::<{}>({}) returned Ok beyond the {}-byte keystream", ty.name(), p, limit)));
                        }
                        Ok(Some(*p))
                    }
                    Ok(Err(_)) => {
                        if in_range {
                            return Err(("seek-in-range-refused".into(), format!("try_seek::<{}>({}) returned Err for an in-range position", ty.name(), p)));
                        }
                        Ok(None)
                    }
                }
            }
            LAct::ApplyPlain(n) => {
                let n = *n;
                let p = match pos {
                    Some(p) if p + n as u128 <= limit => p,
                    _ => return Ok(pos), // would be refused (apply_keystream panics then) or position unknown: not issued
                };
                let pat = data_pattern(n);
                let mut buf = pat.clone();
                match guarded(|| c.apply_keystream(&mut buf[..])) {
                    Err(e) => Err((format!("apply_keystream-panic:{}", panic_class(&e)), format!("apply_keystream({} bytes) at position {} panicked although the request fits: {}", n, p, e))),
                    Ok(()) => {
                        let ks = self.keystream(p, n);
                        for i in 0..n {
                            if buf[i] != pat[i] ^ ks[i] {
                                return Err(("keystream-mismatch".into(), format!("apply_keystream({}) at position {}: byte {} got {:02x} want {:02x}", n, p, i, buf[i], pat[i] ^ ks[i])));
                            }
                        }
                        Ok(Some(p + n as u128))
                    }
                }
            }
            LAct::Apply(n) => {
                let n = *n;
                let pat = data_pattern(n);
                let mut buf = vec![0xc3u8; 64 + n + 64];
                buf[64..64 + n].copy_from_slice(&pat);
                let r = guarded(|| c.try_apply_keystream(&mut buf[64..64 + n]));
                if !(buf[..64].iter().all(|b| *b == 0xc3) && buf[64 + n..].iter().all(|b| *b == 0xc3)) {
                    return Err(("apply-wrote-outside".into(), format!("apply({}) changed bytes outside the slice", n)));
                }
                match (r, pos) {
                    (Err(e), _) => Err((format!("apply-panic:{}", panic_class(&e)), format!("try_apply_keystream({} bytes) at position {:?} panicked: {}", n, pos, e))),
                    (Ok(res), None) => {
                        if res.is_err() && buf[64..64 + n] != pat[..] {
                            return Err(("failed-apply-modified-data".into(), format!("apply({}) returned Err but changed the data", n)));
                        }
                        Ok(None)
                    }
                    (Ok(res), Some(p)) => {
                        let fits = p + n as u128 <= limit;
                        let lenient = K::LAYOUT != Layout::Ietf && p < two64 && p + n as u128 > two64 && fits;
                        match res {
                            Ok(()) => {
                                if !fits {
                                    return Err(("apply-past-end-accepted".into(), format!("apply({}) at {} runs past the {}-byte keystream but returned Ok", n, p, limit)));
                                }
                                let ks = self.keystream(p, n);
                                for i in 0..n {
                                    if buf[64 + i] != pat[i] ^ ks[i] {
                                        return Err(("keystream-mismatch".into(), format!("apply({}) at position {}: byte {} (absolute {}) got {:02x} want {:02x}", n, p, i, p + i as u128, buf[64 + i], pat[i] ^ ks[i])));
                                    }
                                }
                                Ok(Some(p + n as u128))
                            }
                            Err(_) => {
                                if fits && !lenient {
                                    return Err(("spurious-exhaustion".into(), format!("apply({}) at position {} fits inside the {}-byte keystream but returned Err", n, p, limit)));
                                }
                                if buf[64..64 + n] != pat[..] {
                                    return Err(("failed-apply-modified-data".into(), format!("apply({}) at {} returned Err but changed the data", n, p)));
                                }
                                Ok(Some(p))
                            }
                        }
                    }
                }
            }
            LAct::CurPos(ty) => match (guarded(|| K::try_current_pos(c, *ty)), pos) {
                (Err(e), _) => Err((format!("current-pos-panic:{}", panic_class(&e)), format!("try_current_pos::<{}>() panicked: {}", ty.name(), e))),
                (Ok(_), None) => Ok(None),
                (Ok(got), Some(p)) => {
                    let want = if p <= ty.max() { Some(p) } else { None };
                    if got.clone().ok() != want {
                        return Err(("current-pos-wrong".into(), format!("try_current_pos::<{}>() = {:?}, absolute position is {}", ty.name(), got.ok(), p)));
                    }
                    Ok(Some(p))
                }
            },
        }
    }

    /// run one history from a fresh object; Err = (index of the failing call, class, detail)
    pub fn run_history(&self, h: &[usize]) -> Result<(), (usize, String, String)> {
        let mut c = K::new(&self.key, &self.nonce);
        let mut pos = Some(0u128);
        for (i, ai) in h.iter().enumerate() {
            match self.exec(&mut c, pos, &self.menu[*ai]) {
                Ok(p) => pos = p,
                Err((cls, d)) => return Err((i, cls, d)),
            }
        }
        Ok(())
    }
}

fn nonce_variant(v: u8, len: usize) -> Vec<u8> {
    if v == 0 { nonce_pattern(2, len) } else { vec![0xff; len] }
}

fn run_kind<K: Kind>(rep: &mut Report, depth: usize) {
    for nv in 0..2u8 {
        let sys = Live::<K>::new(key_pattern(2), nonce_variant(nv, K::NONCE_LEN));
        let m = sys.menu.len();
        let t0 = std::time::Instant::now();
        // all histories of exactly `depth` calls (a failing prefix ends its histories early), grouped by first call
        let results: Vec<(u64, u64, Vec<(Vec<usize>, usize, String, String)>)> = (0..m)
            .into_par_iter()
            .map(|first| {
                let mut n = 0u64;
                let mut ops = 0u64;
                let mut bad: Vec<(Vec<usize>, usize, String, String)> = Vec::new();
                let mut h = vec![first; 1];
                h.resize(depth, 0);
                let total = m.pow(depth as u32 - 1);
                'outer: for idx in 0..total {
                    let mut x = idx;
                    for d in (1..depth).rev() {
                        h[d] = x % m;
                        x /= m;
                    }
                    n += 1;
                    ops += depth as u64;
                    if let Err((i, cls, d)) = sys.run_history(&h) {
                        if bad.iter().all(|b| b.2 != cls) {
                            bad.push((h[..=i].to_vec(), i, cls, d));
                        }
                        if bad.len() > 8 {
                            break 'outer;
                        }
                    }
                }
                (n, ops, bad)
            })
            .collect();
        let mut hist = 0u64;
        let mut ops = 0u64;
        for (n, o, bad) in results {
            hist += n;
            ops += o;
            for (h, _i, cls, d) in bad {
                let sig = format!("chacha:{}:live:{}", K::NAME, cls);
                let replay = json!({"engine":"H-live","check": rep.prop, "kind": K::NAME, "nonce_variant": nv, "ops": h.iter().map(|i| sys.menu[*i].json()).collect::<Vec<_>>()});
                let better = rep.violations.get(&sig).map(|v| v.replay["ops"].as_array().map(|a| a.len()).unwrap_or(99) > h.len()).unwrap_or(true);
                if better {
                    rep.violations.insert(sig.clone(), Violation { sig, detail: format!("{} (call {} of a history on a live, never reconstructed object)", d, h.len()), replay, count: 1 });
                }
            }
        }
        rep.add("live_histories", hist);
        rep.add("live_calls", ops);
        rep.add("transitions", ops);
        let mut arr = rep.extra.get("live_phase").cloned().unwrap_or(json!([]));
        arr.as_array_mut().unwrap().push(json!({"kind": K::NAME, "nonce": if nv == 0 { "pattern" } else { "all-ones" }, "menu_size": m, "depth": depth, "histories": hist, "calls": ops, "wall_s": t0.elapsed().as_secs_f64()}));
        rep.set("live_phase", arr);
        if nv == 0 {
            rep.sample(json!({"kind": K::NAME, "phase": "live", "trace": [sys.menu[3].json(), sys.menu[m - 8].json(), sys.menu[m - 1].json()]}));
        }
    }
}

/// appended to the report of C02 / C11 (or the whole check when the cipher's state fields are not accessible)
pub fn run_into(rep: &mut Report, tier: &str) {
    let depth: usize = std::env::var("VH_LIVE_DEPTH").ok().and_then(|s| s.parse().ok()).unwrap_or(if tier == "thorough" { 4 } else { 3 });
    crate::for_each_kind!(run_kind, rep, depth);
    rep.rule.push_str(&format!(" || live-object phase: every history of {} calls over a sparse menu (try_seek to 0 / 2^31 / 2^32 / 2^38 / 2^64 bytes with offsets -130,-65,-64,-63,-1,0,1,5,63,64,65,130 through u64, a few values through u8,u16,u32,i32,u128,usize incl. -1 and 2^64; try_apply_keystream of 0,1,5,59,63,64,65,70,128,191,256,257,320,513 bytes; apply_keystream (the infallible entry point) of 64 and 70 bytes when the request fits; try_current_pos through 4 integer types) is executed from scratch on a real, never reconstructed cipher object for all 7 types and two nonces, with the same oracle", depth));
}

pub fn run_alone(prop: &str, tier: &str, config: &str) -> Report {
    let mut rep = Report::new(prop, tier, config);
    rep.exhaustive = true;
    run_into(&mut rep, tier);
    let h = rep.extra.get("live_histories").and_then(|v| v.as_u64()).unwrap_or(0);
    let t = rep.extra.get("transitions").and_then(|v| v.as_u64()).unwrap_or(0);
    rep.evaluations = h;
    rep.nontrivial = h;
    rep.set("states", json!(h));
    rep.set("traces_validated_against_impl", json!(h));
    rep.set("transitions", json!(t));
    rep.assumptions.push("the public state fields of the cipher objects are not accessible in this tree: only the stateless live-object phase ran, the keyed fixpoint exploration could not".into());
    rep
}

pub fn replay(v: &Value) -> Option<bool> {
    fn go<K: Kind>(v: &Value) -> Option<bool> {
        if v["kind"].as_str()? != K::NAME {
            return None;
        }
        let sys = Live::<K>::new(key_pattern(2), nonce_variant(v["nonce_variant"].as_u64().unwrap_or(0) as u8, K::NONCE_LEN));
        let mut c = K::new(&sys.key, &sys.nonce);
        let mut pos = Some(0u128);
        println!("replay {} on a live {} object", v["check"], K::NAME);
        for op in v["ops"].as_array()? {
            let a = LAct::from_json(op);
            match sys.exec(&mut c, pos, &a) {
                Ok(p) => {
                    println!("  {:?} -> ok; model position {:?}", a, p);
                    pos = p;
                }
                Err((cls, d)) => {
                    println!("  {:?} -> VIOLATION {}: {}", a, cls, d);
                    return Some(false);
                }
            }
        }
        Some(true)
    }
    let mut res = None;
    macro_rules! t { ($k:ty) => { if res.is_none() { res = go::<$k>(v); } }; }
    t!(KIetf); t!(KChaCha8); t!(KChaCha12); t!(KChaCha20); t!(KXChaCha8); t!(KXChaCha12); t!(KXChaCha20);
    res
}
