//! Cross-check of the hand-written explorer (explore.rs) by an independent explicit-state engine:
//! the same transition system is handed to stateright's BFS checker and the two engines must
//! agree on the number of unique states and on the number of oracle violations.
use crate::chist::{Act, ChSys, St};
use crate::ciphers::KindInternals as Kind;
use crate::explore::{Step, Sys};
use stateright::{Checker, Model, Property};
use std::sync::atomic::{AtomicU64, Ordering};

pub struct SrModel<K: Kind> {
    pub sys: std::sync::Arc<ChSys<K>>,
    pub bad: AtomicU64,
}

impl<K: Kind> Model for SrModel<K> {
    type State = St;
    type Action = Act;
    fn init_states(&self) -> Vec<St> {
        self.sys.init()
    }
    fn actions(&self, s: &St, out: &mut Vec<Act>) {
        if self.sys.expandable(s) {
            out.extend(self.sys.actions(s));
        }
    }
    fn next_state(&self, s: &St, a: Act) -> Option<St> {
        match self.sys.step(s, &a) {
            Step::Next(n) => Some(n),
            Step::Bad { .. } => {
                self.bad.fetch_add(1, Ordering::Relaxed);
                None
            }
            Step::Skip => None,
        }
    }
    fn properties(&self) -> Vec<Property<Self>> {
        // violations are counted in next_state (all of them, not only the first); the property keeps
        // the checker exploring the complete space
        vec![Property::<Self>::always("explore everything", |_, _| true)]
    }
}

/// returns (unique states, oracle violations) as seen by stateright
pub fn explore<K: Kind>(sys: std::sync::Arc<ChSys<K>>, threads: usize) -> (usize, u64) {
    let m = SrModel { sys, bad: AtomicU64::new(0) };
    let checker = m.checker().threads(threads).spawn_bfs().join();
    let n = checker.unique_state_count();
    let bad = checker.model().bad.load(Ordering::Relaxed);
    (n, bad)
}
