//! C09 / C10: Threefish against the Skein 1.3 definition, and decrypt . encrypt = id (Engine E).
use crate::report::*;
use cipher::generic_array::GenericArray;
use cipher::{BlockDecrypt, BlockEncrypt};
use rayon::prelude::*;
use serde_json::json;
use std::collections::HashSet;
use threefish_cipher::{Threefish1024, Threefish256, Threefish512};

pub trait TF: Send + Sync {
    const N: usize;
    const NAME: &'static str;
    fn enc(key: &[u8], tw: [u64; 2], block: &[u8]) -> Vec<u8>;
    fn dec(key: &[u8], tw: [u64; 2], block: &[u8]) -> Vec<u8>;
    /// the slice entry points of the cipher traits (encrypt_blocks / decrypt_blocks) on `data` = n blocks
    fn enc_blocks(key: &[u8], tw: [u64; 2], data: &[u8]) -> Vec<u8>;
    fn dec_blocks(key: &[u8], tw: [u64; 2], data: &[u8]) -> Vec<u8>;
    /// NewBlockCipher::new / new_from_slice (tweak 0) and a clone of the cipher object
    fn enc_new(key: &[u8], block: &[u8]) -> Vec<u8>;
}
macro_rules! tf {
    ($k:ident, $ty:ty, $n:expr, $name:expr) => {
        pub struct $k;
        impl TF for $k {
            const N: usize = $n;
            const NAME: &'static str = $name;
            fn enc(key: &[u8], tw: [u64; 2], block: &[u8]) -> Vec<u8> {
                let c = <$ty>::with_tweak(GenericArray::from_slice(key), tw[0], tw[1]);
                let mut b = GenericArray::clone_from_slice(block);
                c.encrypt_block(&mut b);
                b.to_vec()
            }
            fn dec(key: &[u8], tw: [u64; 2], block: &[u8]) -> Vec<u8> {
                let c = <$ty>::with_tweak(GenericArray::from_slice(key), tw[0], tw[1]);
                let mut b = GenericArray::clone_from_slice(block);
                c.decrypt_block(&mut b);
                b.to_vec()
            }
            fn enc_blocks(key: &[u8], tw: [u64; 2], data: &[u8]) -> Vec<u8> {
                let c = <$ty>::with_tweak(GenericArray::from_slice(key), tw[0], tw[1]);
                let mut bs: Vec<_> = data.chunks($n).map(|b| GenericArray::clone_from_slice(b)).collect();
                c.encrypt_blocks(&mut bs);
                // the parallel-blocks entry point (ParBlocks = 1) must agree with it block by block
                for (i, b) in data.chunks($n).enumerate() {
                    let mut pb: cipher::generic_array::GenericArray<cipher::generic_array::GenericArray<u8, _>, cipher::generic_array::typenum::U1> = Default::default();
                    pb[0] = GenericArray::clone_from_slice(b);
                    c.encrypt_par_blocks(&mut pb);
                    assert!(pb[0] == bs[i], "encrypt_par_blocks disagrees with encrypt_blocks");
                }
                bs.iter().flat_map(|b| b.to_vec()).collect()
            }
            fn dec_blocks(key: &[u8], tw: [u64; 2], data: &[u8]) -> Vec<u8> {
                let c = <$ty>::with_tweak(GenericArray::from_slice(key), tw[0], tw[1]);
                let mut bs: Vec<_> = data.chunks($n).map(|b| GenericArray::clone_from_slice(b)).collect();
                c.decrypt_blocks(&mut bs);
                for (i, b) in data.chunks($n).enumerate() {
                    let mut pb: cipher::generic_array::GenericArray<cipher::generic_array::GenericArray<u8, _>, cipher::generic_array::typenum::U1> = Default::default();
                    pb[0] = GenericArray::clone_from_slice(b);
                    c.decrypt_par_blocks(&mut pb);
                    assert!(pb[0] == bs[i], "decrypt_par_blocks disagrees with decrypt_blocks");
                }
                bs.iter().flat_map(|b| b.to_vec()).collect()
            }
            fn enc_new(key: &[u8], block: &[u8]) -> Vec<u8> {
                use cipher::NewBlockCipher;
                let c = <$ty as NewBlockCipher>::new(GenericArray::from_slice(key));
                let c2 = <$ty as NewBlockCipher>::new_from_slice(key).unwrap();
                let mut b = GenericArray::clone_from_slice(block);
                c.encrypt_block(&mut b);
                let mut b2 = GenericArray::clone_from_slice(block);
                c2.clone().encrypt_block(&mut b2);
                assert!(b == b2, "new and new_from_slice (and a clone) disagree");
                b.to_vec()
            }
        }
    };
}
tf!(T256, Threefish256, 32, "Threefish256");
tf!(T512, Threefish512, 64, "Threefish512");
tf!(T1024, Threefish1024, 128, "Threefish1024");

fn patt(n: usize, seed: u8) -> Vec<u8> {
    (0..n).map(|i| ((i * 73 + 17) as u8) ^ seed.wrapping_mul(i as u8 | 1)).collect()
}

pub fn keys(n: usize, thorough: bool) -> Vec<Vec<u8>> {
    let mut v = vec![vec![0u8; n], vec![0xffu8; n]];
    for b in 0..8 * n {
        let mut k = vec![0u8; n];
        k[b / 8] = 1 << (b % 8);
        v.push(k);
    }
    for w in 0..n / 8 {
        let mut k = vec![0u8; n];
        for i in 0..8 {
            k[8 * w + i] = 0xff;
        }
        v.push(k);
    }
    // words XOR to C240, so the parity word k_Nw is zero
    let mut k = patt(n, 3);
    let mut x = vref::threefish::C240;
    for w in vref::threefish::words(&k[..n - 8]) {
        x ^= w;
    }
    k[n - 8..].copy_from_slice(&x.to_le_bytes());
    v.push(k);
    if thorough {
        for b in 0..8 * n {
            let mut k = vec![0xffu8; n];
            k[b / 8] ^= 1 << (b % 8);
            v.push(k);
        }
        for s in 0..64 {
            v.push(patt(n, s));
        }
    }
    v
}
pub fn tweaks(thorough: bool) -> Vec<[u64; 2]> {
    let mut v = vec![[0, 0], [u64::MAX, u64::MAX], [0x0706050403020100, 0x0f0e0d0c0b0a0908], [0x1234_5678_9abc_def0, 0x1234_5678_9abc_def0]];
    for b in 0..64 {
        v.push([1 << b, 0]);
        v.push([0, 1 << b]);
    }
    v.push([u64::MAX, 0]);
    v.push([0, u64::MAX]);
    v.push([u64::MAX, 1]);
    if thorough {
        for b in 0..64 {
            v.push([!(1u64 << b), u64::MAX]);
            v.push([u64::MAX, !(1u64 << b)]);
            v.push([1 << b, 1 << b]);
        }
    }
    v
}
pub fn blocks(n: usize, thorough: bool) -> Vec<Vec<u8>> {
    let mut v = vec![vec![0u8; n], vec![0xffu8; n]];
    for b in 0..8 * n {
        let mut k = vec![0u8; n];
        k[b / 8] = 1 << (b % 8);
        v.push(k);
    }
    for w in 0..n / 8 {
        let mut k = vec![0u8; n];
        for i in 0..8 {
            k[8 * w + i] = 0xff;
        }
        v.push(k);
    }
    if thorough {
        for b in 0..8 * n {
            let mut k = vec![0xffu8; n];
            k[b / 8] ^= 1 << (b % 8);
            v.push(k);
        }
        for s in 0..64 {
            v.push(patt(n, s ^ 0x55));
        }
    }
    v
}

pub fn domain<T: TF>(thorough: bool) -> Vec<(Vec<u8>, [u64; 2], Vec<u8>, &'static str)> {
    let n = T::N;
    let ks = keys(n, thorough);
    let ts = tweaks(thorough);
    let bs = blocks(n, thorough);
    let k01 = [patt(n, 1), patt(n, 2)];
    let t01 = [[0x0706050403020100u64, 0x0f0e0d0c0b0a0908], [0xfedc_ba98_7654_3210, 0x0123_4567_89ab_cdef]];
    let b01 = [patt(n, 9), vec![0u8; n]];
    let mut v = Vec::new();
    for k in &ks {
        for b in &b01 {
            v.push((k.clone(), t01[0], b.clone(), "keysweep"));
            // the all-zero tweak as well: with a zero key/tweak/block most internal words are zero, the
            // corner where a shortcut keyed on "this word is zero" misfires
            v.push((k.clone(), [0, 0], b.clone(), "keysweep-zero-tweak"));
        }
    }
    let zk = vec![0u8; n];
    for b in &bs {
        v.push((zk.clone(), [0, 0], b.clone(), "zero-key-zero-tweak-blocksweep"));
        v.push((zk.clone(), t01[0], b.clone(), "zero-key-blocksweep"));
    }
    for t in &ts {
        v.push((zk.clone(), *t, vec![0u8; n], "zero-key-zero-block-tweaksweep"));
    }
    for k in &k01 {
        for t in &ts {
            for b in &b01 {
                v.push((k.clone(), *t, b.clone(), "tweaksweep"));
            }
        }
    }
    for k in &k01 {
        for t in &t01 {
            for b in &bs {
                v.push((k.clone(), *t, b.clone(), "blocksweep"));
            }
        }
    }
    if thorough {
        for k in ks.iter().step_by(3) {
            for t in ts.iter().step_by(5) {
                v.push((k.clone(), *t, b01[0].clone(), "key-x-tweak"));
            }
        }
        for k in ks.iter().step_by(7) {
            for b in bs.iter().step_by(7) {
                v.push((k.clone(), t01[1], b.clone(), "key-x-block"));
            }
        }
    }
    v
}

fn run_one<T: TF>(rep: &mut Report, check: &str, thorough: bool) {
    let dom = domain::<T>(thorough);
    let res: Vec<_> = dom
        .par_iter()
        .map(|(k, t, b, _)| {
            let want_e = vref::threefish::encrypt(k, *t, b);
            let want_d = vref::threefish::decrypt(k, *t, b);
            let got = guarded(|| {
                let e = T::enc(k, *t, b);
                let d = T::dec(k, *t, b);
                let de = T::dec(k, *t, &e);
                let ed = T::enc(k, *t, &d);
                (e, d, de, ed)
            });
            (want_e, want_d, got)
        })
        .collect();
    let mut seen = HashSet::new();
    for (i, (want_e, want_d, got)) in res.into_iter().enumerate() {
        let (k, t, b, part) = &dom[i];
        rep.evaluations += 1;
        if seen.insert(fnv(&want_e)) {
            rep.nontrivial += 1;
        }
        let replay = json!({"engine":"E","check":check,"cipher":T::NAME,"key":vref::hex(k),"tweak":[t[0].to_string(), t[1].to_string()],"block":vref::hex(b)});
        if i % 499 == 7 {
            rep.sample(replay.clone());
        }
        let lc = check.to_lowercase();
        match got {
            Err(p) => rep.violation(&format!("{}:{}:panic:{}", lc, T::NAME, panic_class(&p)), format!("panic: {}", p), replay),
            Ok((e, d, de, ed)) => {
                if check == "C09" {
                    if e != want_e {
                        rep.violation(&format!("c09:{}:{}:encrypt-mismatch", T::NAME, part), format!("encrypt got {}.. want {}..", vref::hex(&e[..16]), vref::hex(&want_e[..16])), replay);
                    }
                } else {
                    if &de != b {
                        rep.violation(&format!("c10:{}:{}:dec-enc-not-identity", T::NAME, part), format!("decrypt(encrypt(x)) = {}.. for x = {}..", vref::hex(&de[..16]), vref::hex(&b[..16])), replay.clone());
                    }
                    if &ed != b {
                        rep.violation(&format!("c10:{}:{}:enc-dec-not-identity", T::NAME, part), format!("encrypt(decrypt(x)) = {}.. for x = {}..", vref::hex(&ed[..16]), vref::hex(&b[..16])), replay.clone());
                    }
                    if d != want_d {
                        rep.violation(&format!("c10:{}:{}:decrypt-mismatch", T::NAME, part), format!("decrypt got {}.. want {}..", vref::hex(&d[..16]), vref::hex(&want_d[..16])), replay);
                    }
                }
            }
        }
    }
}

/// slice entry points: 0..=5 blocks of distinct contents, both directions, against the model per block
fn run_slices<T: TF>(rep: &mut Report, check: &str) {
    let n = T::N;
    let key = patt(n, 21);
    let tw = [0x1111_2222_3333_4444u64, 0xaaaa_bbbb_cccc_dddd];
    for nb in 0..=5usize {
        let data: Vec<u8> = (0..nb * n).map(|i| (i as u8).wrapping_mul(13) ^ ((i / n) as u8).wrapping_mul(0x5b)).collect();
        rep.evaluations += 1;
        rep.nontrivial += 1;
        let want_e: Vec<u8> = data.chunks(n).flat_map(|b| vref::threefish::encrypt(&key, tw, b)).collect();
        let want_d: Vec<u8> = data.chunks(n).flat_map(|b| vref::threefish::decrypt(&key, tw, b)).collect();
        if nb == 1 {
            let want0 = vref::threefish::encrypt(&key, [0, 0], &data);
            match guarded(|| T::enc_new(&key, &data)) {
                Err(p) => rep.violation(&format!("{}:{}:new-api:panic:{}", check.to_lowercase(), T::NAME, panic_class(&p)), format!("NewBlockCipher::new / new_from_slice / clone: {}", p), json!({"cipher": T::NAME, "api": "new"})),
                Ok(e) => {
                    if e != want0 {
                        rep.violation(&format!("{}:{}:new-api:encrypt-mismatch", check.to_lowercase(), T::NAME), "a cipher built with NewBlockCipher::new (tweak 0) differs from the model".into(), json!({"cipher": T::NAME, "api": "new"}));
                    }
                }
            }
        }
        let r = guarded(|| {
            let e = T::enc_blocks(&key, tw, &data);
            let d = T::dec_blocks(&key, tw, &data);
            let de = T::dec_blocks(&key, tw, &e);
            let ed = T::enc_blocks(&key, tw, &d);
            (e, d, de, ed)
        });
        let replay = json!({"engine":"E","check":check,"cipher":T::NAME,"api":"encrypt_blocks/decrypt_blocks","blocks":nb});
        let lc = check.to_lowercase();
        match r {
            Err(p) => rep.violation(&format!("{}:{}:blocks-api:panic:{}", lc, T::NAME, panic_class(&p)), format!("{} blocks: panic {}", nb, p), replay),
            Ok((e, d, de, ed)) => {
                if check == "C09" {
                    if e != want_e {
                        rep.violation(&format!("c09:{}:blocks-api:encrypt-mismatch", T::NAME), format!("encrypt_blocks over {} blocks differs from the model", nb), replay);
                    }
                } else {
                    if de != data || ed != data {
                        rep.violation(&format!("c10:{}:blocks-api:not-identity", T::NAME), format!("decrypt_blocks(encrypt_blocks(x)) or the other order is not the identity on {} blocks", nb), replay.clone());
                    }
                    if d != want_d {
                        rep.violation(&format!("c10:{}:blocks-api:decrypt-mismatch", T::NAME), format!("decrypt_blocks over {} blocks differs from the model", nb), replay);
                    }
                }
            }
        }
    }
}

pub fn run(check: &str, tier: &str, config: &str) -> Report {
    let mut rep = Report::new(check, tier, config);
    let th = tier == "thorough";
    rep.rule = "per block size: union of complete products K x {t0, (0,0)} x {b0,b1}, {0} x {(0,0), t0} x B, {0} x T x {0}, {k0,k1} x T x {b0,b1}, {k0,k1} x {t0,t1} x B with K = {0, 1^n, every one-hot key bit, each word all-ones, a key whose words XOR to C240 (parity word 0)}, T = {(0,0), (max,max), every one-hot of the 128 tweak bits, (x,x) (third tweak word 0), ...}, B = {0, 1^n, every one-hot block bit, each word all-ones}; thorough adds one-cold keys/blocks/tweaks, 64 patterned values and sparse cross products; oracle vref::threefish (round loop, subkeys on the fly, spec permutation); C10 checks dec(enc(x)) = x, enc(dec(x)) = x and dec against the model; both checks also drive the slice entry points encrypt_blocks / decrypt_blocks on 0..=5 blocks, the par-blocks entry points, NewBlockCipher::new / new_from_slice and a clone of the cipher object; distinct_nontrivial = distinct expected ciphertexts".into();
    run_one::<T256>(&mut rep, check, th);
    run_one::<T512>(&mut rep, check, th);
    run_one::<T1024>(&mut rep, check, th);
    run_slices::<T256>(&mut rep, check);
    run_slices::<T512>(&mut rep, check);
    run_slices::<T1024>(&mut rep, check);
    rep
}

pub fn replay(v: &serde_json::Value) -> Option<bool> {
    fn go<T: TF>(v: &serde_json::Value) -> Option<bool> {
        if v["cipher"].as_str()? != T::NAME {
            return None;
        }
        if v.get("blocks").is_some() {
            return None; // slice-API cases: signature fallback
        }
        let key = vref::unhex(v["key"].as_str()?);
        let block = vref::unhex(v["block"].as_str()?);
        let tw = [v["tweak"][0].as_str()?.parse::<u64>().ok()?, v["tweak"][1].as_str()?.parse::<u64>().ok()?];
        let we = vref::threefish::encrypt(&key, tw, &block);
        let wd = vref::threefish::decrypt(&key, tw, &block);
        println!("replay {} {}", v["check"], T::NAME);
        println!("  expected enc {}..  dec {}..", vref::hex(&we[..16]), vref::hex(&wd[..16]));
        match guarded(|| (T::enc(&key, tw, &block), T::dec(&key, tw, &block))) {
            Err(p) => { println!("  observed PANIC {}", p); Some(false) }
            Ok((e, d)) => {
                println!("  observed enc {}..  dec {}..", vref::hex(&e[..16]), vref::hex(&d[..16]));
                let rt = guarded(|| T::dec(&key, tw, &e) == block && T::enc(&key, tw, &d) == block).unwrap_or(false);
                println!("  round trips: {}", rt);
                Some(e == we && d == wd && rt)
            }
        }
    }
    go::<T256>(v).or_else(|| go::<T512>(v)).or_else(|| go::<T1024>(v))
}
