//! C19: ppv-null emulated vectors equal scalar lane-wise arithmetic and never panic (Engine E).
use crate::report::*;
use crate::simd::alphabet;
use ppv_null::*;
use serde_json::json;
extern crate crypto_simd_01 as crypto_simd;
use crypto_simd::{RotateWordsRight, SplatRotateRight};

struct Cx<'a> {
    rep: &'a mut Report,
}
impl<'a> Cx<'a> {
    /// run `f` over the whole input set for one (type, op); f returns the first mismatch
    fn op(&mut self, ty: &str, name: &str, n: usize, f: impl FnOnce() -> Option<String>) {
        self.rep.evaluations += n as u64;
        self.rep.nontrivial += n as u64;
        let sig = format!("c19:{}:{}", ty, name);
        let replay = json!({"engine":"E","check":"C19","type":ty,"op":name});
        if self.rep.evaluations % 5 == 0 {
            self.rep.sample(replay.clone());
        }
        match guarded(f) {
            Err(p) => self.rep.violation(&format!("{}:panic:{}", sig, panic_class(&p)), format!("ppv_null::{}::{} panicked: {}", ty, name, p), replay),
            Ok(Some(d)) => self.rep.violation(&sig, format!("ppv_null::{}::{}: {}", ty, name, d), replay),
            Ok(None) => {}
        }
    }
}

macro_rules! vec4_tests {
    ($cx:expr, $V:ident, $w:ident, $bits:expr, $tname:expr) => {{
        let al: Vec<$w> = alphabet($bits).into_iter().map(|x| x as $w).collect();
        let fill: [$w; 4] = [0x9e37_79b9 as $w, (0x7f4a_7c15_u64 as $w).wrapping_mul(3), 0x1234_5678 as $w ^ (1 as $w).rotate_right(3), 0x0f0f_1e1e as $w];
        let get = |v: $V| -> [$w; 4] { [v.extract(0), v.extract(1), v.extract(2), v.extract(3)] };
        // inputs: each alphabet value in each lane
        let mut ins: Vec<[$w; 4]> = Vec::new();
        for lane in 0..4 {
            for a in &al {
                let mut x = fill;
                x[lane] = *a;
                ins.push(x);
            }
        }
        for a in &al {
            ins.push([*a; 4]);
        }
        let pairs: Vec<([$w; 4], [$w; 4])> = {
            let mut p = Vec::new();
            for lane in 0..4 {
                for (i, a) in al.iter().enumerate() {
                    for (j, b) in al.iter().enumerate() {
                        if i < 11 || j < 11 || i == j || i + 1 == j || j + 1 == i {
                            let mut x = fill;
                            let mut y = [fill[3], fill[2], fill[1], fill[0]];
                            x[lane] = *a;
                            y[lane] = *b;
                            p.push((x, y));
                        }
                    }
                }
            }
            p
        };
        let mk = |x: [$w; 4]| $V::new(x[0], x[1], x[2], x[3]);
        $cx.op($tname, "new/extract", ins.len(), || ins.iter().find(|x| get(mk(**x)) != **x).map(|x| format!("{:x?}", x)));
        $cx.op($tname, "from_slice_unaligned/write_to_slice_unaligned", ins.len(), || {
            for x in &ins {
                let v = $V::from_slice_unaligned(&x[..]);
                let mut o = [0 as $w; 4];
                v.write_to_slice_unaligned(&mut o);
                if o != *x || get(v) != *x {
                    return Some(format!("{:x?} -> {:x?}", x, o));
                }
            }
            None
        });
        $cx.op($tname, "splat", al.len(), || al.iter().find(|a| get($V::splat(**a)) != [**a; 4]).map(|a| format!("{:x}", a)));
        $cx.op($tname, "replace", ins.len() * 4, || {
            for x in &ins {
                for i in 0..4 {
                    let v = mk(*x).replace(i, al[(i * 7 + 3) % al.len()]);
                    let mut want = *x;
                    want[i] = al[(i * 7 + 3) % al.len()];
                    if get(v) != want {
                        return Some(format!("replace({:x?}, {}) -> {:x?}", x, i, get(v)));
                    }
                }
            }
            None
        });
        macro_rules! bin {
            ($name:expr, $f:expr, $m:expr) => {
                $cx.op($tname, $name, pairs.len(), || {
                    for (x, y) in &pairs {
                        let got = get($f(mk(*x), mk(*y)));
                        let want = [$m(x[0], y[0]), $m(x[1], y[1]), $m(x[2], y[2]), $m(x[3], y[3])];
                        if got != want {
                            return Some(format!("{:x?} , {:x?} -> {:x?} want {:x?}", x, y, got, want));
                        }
                    }
                    None
                });
            };
        }
        bin!("add", |a: $V, b: $V| a + b, |p: $w, q: $w| p.wrapping_add(q));
        bin!("add_assign", |mut a: $V, b: $V| { a += b; a }, |p: $w, q: $w| p.wrapping_add(q));
        bin!("bitxor", |a: $V, b: $V| a ^ b, |p: $w, q: $w| p ^ q);
        bin!("bitxor_assign", |mut a: $V, b: $V| { a ^= b; a }, |p: $w, q: $w| p ^ q);
        bin!("bitor", |a: $V, b: $V| a | b, |p: $w, q: $w| p | q);
        bin!("bitand", |a: $V, b: $V| a & b, |p: $w, q: $w| p & q);
        // per-word rotation amounts 1..bits-1 in every lane
        $cx.op($tname, "rotate_right(per-word amounts)", ins.iter().step_by(3).count() * ($bits - 1), || {
            for x in ins.iter().step_by(3) {
                for r in 1..$bits as $w {
                    let amounts = [r, ($bits as $w - r), (r * 7) % ($bits as $w - 1) + 1, 1];
                    let mut v = mk(*x);
                    let got = get(v.rotate_right(mk(amounts)));
                    let want = [x[0].rotate_right(amounts[0] as u32), x[1].rotate_right(amounts[1] as u32), x[2].rotate_right(amounts[2] as u32), x[3].rotate_right(amounts[3] as u32)];
                    if got != want {
                        return Some(format!("rotate_right({:x?}, {:?}) -> {:x?} want {:x?}", x, amounts, got, want));
                    }
                }
            }
            None
        });
        $cx.op($tname, "splat_rotate_right", ins.len() * ($bits - 1), || {
            for x in &ins {
                for r in 1..$bits as u32 {
                    let got = get(mk(*x).splat_rotate_right(r));
                    let want = [x[0].rotate_right(r), x[1].rotate_right(r), x[2].rotate_right(r), x[3].rotate_right(r)];
                    if got != want {
                        return Some(format!("splat_rotate_right({:x?}, {}) -> {:x?} want {:x?}", x, r, got, want));
                    }
                }
            }
            None
        });
        $cx.op($tname, "rotate_words_right", ins.len() * 4, || {
            for x in &ins {
                for i in 0..4u32 {
                    let got = get(mk(*x).rotate_words_right(i));
                    // word j moves to position j + i
                    let mut want = [0 as $w; 4];
                    for j in 0..4 {
                        want[(j + i as usize) % 4] = x[j];
                    }
                    if got != want {
                        return Some(format!("rotate_words_right({:x?}, {}) -> {:x?} want {:x?}", x, i, got, want));
                    }
                }
            }
            None
        });
    }};
}

fn swap_model(x: u128, n: u32) -> u128 {
    let mut m = 0u128;
    let mut i = 0;
    while i < 128 {
        m |= ((1u128 << n) - 1) << i;
        i += 2 * n;
    }
    ((x & m) << n) | ((x >> n) & m)
}

pub fn run(tier: &str, config: &str) -> Report {
    let mut rep = Report::new("C19", tier, config);
    rep.rule = "every public method of ppv_null::{u32x4,u64x4,u128x1,u128x2,u32x4x4}: lane values from the C12 alphabet {0,1,2,max,max-1,msb,msb-1,0x55..,0xaa..,patterns, every one-hot, every one-cold} in every lane with distinct fillers elsewhere; binary ops on a band of A x A per lane; every rotation amount 1..bits-1 (per-word, splat); word rotations 0..3; every lane index; oracle = wrapping scalar arithmetic; run in release and overflow-checked profiles".into();
    {
        let mut cx = Cx { rep: &mut rep };
        vec4_tests!(cx, u32x4, u32, 32, "u32x4");
        vec4_tests!(cx, u64x4, u64, 64, "u64x4");
        // ---- u128x1 ----
        let al = alphabet(128);
        let pairs: Vec<(u128, u128)> = {
            let mut p = Vec::new();
            for (i, a) in al.iter().enumerate() {
                for (j, b) in al.iter().enumerate() {
                    if i < 11 || j < 11 || i == j || i + 1 == j || j + 1 == i {
                        p.push((*a, *b));
                    }
                }
            }
            p
        };
        cx.op("u128x1", "new/into_inner/extract/load", al.len(), || al.iter().find(|a| u128x1::new(**a).into_inner() != **a || u128x1::new(**a).extract(0) != **a || u128x1::load(&[**a]).into_inner() != **a).map(|a| format!("{:x}", a)));
        cx.op("u128x1", "xor_store", pairs.len(), || {
            for (a, b) in &pairs {
                let mut o = [*b];
                u128x1::new(*a).xor_store(&mut o);
                if o[0] != a ^ b {
                    return Some(format!("{:x} xor_store into {:x} -> {:x}", a, b, o[0]));
                }
            }
            None
        });
        macro_rules! bin1 {
            ($name:expr, $f:expr, $m:expr) => {
                cx.op("u128x1", $name, pairs.len(), || {
                    for (a, b) in &pairs {
                        let got = $f(u128x1::new(*a), u128x1::new(*b)).into_inner();
                        let want = $m(*a, *b);
                        if got != want {
                            return Some(format!("{:x} , {:x} -> {:x} want {:x}", a, b, got, want));
                        }
                    }
                    None
                });
            };
        }
        bin1!("add_assign", |mut a: u128x1, b: u128x1| { a += b; a }, |p: u128, q: u128| p.wrapping_add(q));
        bin1!("bitxor_assign", |mut a: u128x1, b: u128x1| { a ^= b; a }, |p: u128, q: u128| p ^ q);
        bin1!("bitxor", |a: u128x1, b: u128x1| a ^ b, |p: u128, q: u128| p ^ q);
        bin1!("bitand", |a: u128x1, b: u128x1| a & b, |p: u128, q: u128| p & q);
        bin1!("andnot", |a: u128x1, b: u128x1| a.andnot(b), |p: u128, q: u128| !p & q);
        cx.op("u128x1", "not", al.len(), || al.iter().find(|a| (!u128x1::new(**a)).into_inner() != !**a).map(|a| format!("{:x}", a)));
        cx.op("u128x1", "rotate_right", al.len() * 127, || {
            for a in &al {
                for r in 1..128u128 {
                    let mut v = u128x1::new(*a);
                    v.rotate_right(r);
                    if v.into_inner() != a.rotate_right(r as u32) {
                        return Some(format!("rotate_right({:x}, {}) -> {:x}", a, r, v.into_inner()));
                    }
                }
            }
            None
        });
        macro_rules! sw {
            ($name:expr, $m:ident, $n:expr) => {
                cx.op("u128x1", $name, al.len(), || al.iter().find(|a| u128x1::new(**a).$m().into_inner() != swap_model(**a, $n)).map(|a| format!("{}({:x}) -> {:x} want {:x}", $name, a, u128x1::new(*a).$m().into_inner(), swap_model(*a, $n))));
            };
        }
        sw!("swap1", swap1, 1);
        sw!("swap2", swap2, 2);
        sw!("swap4", swap4, 4);
        sw!("swap8", swap8, 8);
        sw!("swap16", swap16, 16);
        sw!("swap32", swap32, 32);
        sw!("swap64", swap64, 64);
        // ---- u128x2 ----
        let f0 = 0x0123_4567_89ab_cdef_0f1e_2d3c_4b5a_6978u128;
        let get2 = |v: u128x2| [v.extract(0), v.extract(1)];
        let ins2: Vec<[u128; 2]> = al.iter().flat_map(|a| vec![[*a, f0], [f0, *a], [*a, *a]]).collect();
        let pairs2: Vec<([u128; 2], [u128; 2])> = pairs.iter().flat_map(|(a, b)| vec![([*a, f0], [*b, !f0]), ([f0, *a], [!f0, *b])]).collect();
        cx.op("u128x2", "new/extract/load", ins2.len(), || ins2.iter().find(|x| get2(u128x2::new(x[0], x[1])) != **x || get2(u128x2::load(&x[..])) != **x).map(|x| format!("{:x?}", x)));
        cx.op("u128x2", "xor_store", pairs2.len(), || {
            for (x, y) in &pairs2 {
                let mut o = *y;
                u128x2::new(x[0], x[1]).xor_store(&mut o);
                if o != [x[0] ^ y[0], x[1] ^ y[1]] {
                    return Some(format!("{:x?} xor_store into {:x?} -> {:x?}", x, y, o));
                }
            }
            None
        });
        macro_rules! bin2 {
            ($name:expr, $f:expr, $m:expr) => {
                cx.op("u128x2", $name, pairs2.len(), || {
                    for (x, y) in &pairs2 {
                        let got = get2($f(u128x2::new(x[0], x[1]), u128x2::new(y[0], y[1])));
                        let want = [$m(x[0], y[0]), $m(x[1], y[1])];
                        if got != want {
                            return Some(format!("{:x?} , {:x?} -> {:x?} want {:x?}", x, y, got, want));
                        }
                    }
                    None
                });
            };
        }
        bin2!("add_assign", |mut a: u128x2, b: u128x2| { a += b; a }, |p: u128, q: u128| p.wrapping_add(q));
        bin2!("bitxor_assign", |mut a: u128x2, b: u128x2| { a ^= b; a }, |p: u128, q: u128| p ^ q);
        bin2!("bitand", |a: u128x2, b: u128x2| a & b, |p: u128, q: u128| p & q);
        bin2!("bitor", |a: u128x2, b: u128x2| a | b, |p: u128, q: u128| p | q);
        bin2!("andnot", |a: u128x2, b: u128x2| a.andnot(b), |p: u128, q: u128| !p & q);
        cx.op("u128x2", "not", ins2.len(), || ins2.iter().find(|x| get2(!u128x2::new(x[0], x[1])) != [!x[0], !x[1]]).map(|x| format!("{:x?}", x)));
        cx.op("u128x2", "rotate_right", ins2.iter().step_by(2).count() * 127, || {
            for x in ins2.iter().step_by(2) {
                for r in 1..128u128 {
                    let mut v = u128x2::new(x[0], x[1]);
                    v.rotate_right(r);
                    if get2(v) != [x[0].rotate_right(r as u32), x[1].rotate_right(r as u32)] {
                        return Some(format!("rotate_right({:x?}, {})", x, r));
                    }
                }
            }
            None
        });
        // ---- u32x4x4 ----
        let al32: Vec<u32> = alphabet(32).into_iter().map(|x| x as u32).collect();
        let base: [u32; 16] = core::array::from_fn(|i| 0x9e37_79b9u32.wrapping_mul(i as u32 + 1));
        let mk16 = |x: &[u32; 16]| u32x4x4::from((u32x4::new(x[0], x[1], x[2], x[3]), u32x4::new(x[4], x[5], x[6], x[7]), u32x4::new(x[8], x[9], x[10], x[11]), u32x4::new(x[12], x[13], x[14], x[15])));
        let get16 = |v: u32x4x4| -> [u32; 16] {
            let (a, b, c, d) = v.into_parts();
            let p = [a, b, c, d];
            core::array::from_fn(|i| p[i / 4].extract(i % 4))
        };
        let mut ins16: Vec<[u32; 16]> = Vec::new();
        for pos in 0..16 {
            for a in &al32 {
                let mut x = base;
                x[pos] = *a;
                ins16.push(x);
            }
        }
        cx.op("u32x4x4", "from/into_parts", ins16.len(), || ins16.iter().find(|x| get16(mk16(x)) != **x).map(|x| format!("{:x?}", x)));
        cx.op("u32x4x4", "splat", al32.len(), || {
            for a in &al32 {
                let l = u32x4::new(*a, !*a, 1, *a ^ 0x55);
                let g = get16(u32x4x4::splat(l));
                for i in 0..16 {
                    if g[i] != [*a, !*a, 1, *a ^ 0x55][i % 4] {
                        return Some(format!("splat lane {:x}", a));
                    }
                }
            }
            None
        });
        let pairs16: Vec<([u32; 16], [u32; 16])> = {
            let mut p = Vec::new();
            for pos in 0..16 {
                for (i, a) in al32.iter().enumerate() {
                    for (j, b) in al32.iter().enumerate() {
                        if i < 11 || j < 11 || i == j {
                            let mut x = base;
                            let mut y: [u32; 16] = core::array::from_fn(|k| base[15 - k]);
                            x[pos] = *a;
                            y[pos] = *b;
                            p.push((x, y));
                        }
                    }
                }
            }
            p
        };
        macro_rules! bin16 {
            ($name:expr, $f:expr, $m:expr) => {
                cx.op("u32x4x4", $name, pairs16.len(), || {
                    for (x, y) in &pairs16 {
                        let got = get16($f(mk16(x), mk16(y)));
                        let want: [u32; 16] = core::array::from_fn(|i| $m(x[i], y[i]));
                        if got != want {
                            return Some(format!("{:x?} , {:x?} -> {:x?}", x, y, got));
                        }
                    }
                    None
                });
            };
        }
        bin16!("add", |a: u32x4x4, b: u32x4x4| a + b, |p: u32, q: u32| p.wrapping_add(q));
        bin16!("add_assign", |mut a: u32x4x4, b: u32x4x4| { a += b; a }, |p: u32, q: u32| p.wrapping_add(q));
        bin16!("bitxor", |a: u32x4x4, b: u32x4x4| a ^ b, |p: u32, q: u32| p ^ q);
        bin16!("bitxor_assign", |mut a: u32x4x4, b: u32x4x4| { a ^= b; a }, |p: u32, q: u32| p ^ q);
        bin16!("bitor", |a: u32x4x4, b: u32x4x4| a | b, |p: u32, q: u32| p | q);
        bin16!("bitand", |a: u32x4x4, b: u32x4x4| a & b, |p: u32, q: u32| p & q);
        cx.op("u32x4x4", "splat_rotate_right", ins16.len() * 31, || {
            for x in &ins16 {
                for r in 1..32u32 {
                    let got = get16(mk16(x).splat_rotate_right(r));
                    let want: [u32; 16] = core::array::from_fn(|i| x[i].rotate_right(r));
                    if got != want {
                        return Some(format!("splat_rotate_right({:x?}, {})", x, r));
                    }
                }
            }
            None
        });
        cx.op("u32x4x4", "rotate_words_right", ins16.len() * 4, || {
            for x in &ins16 {
                for i in 0..4u32 {
                    let got = get16(mk16(x).rotate_words_right(i));
                    let mut want = [0u32; 16];
                    for l in 0..4 {
                        for j in 0..4 {
                            want[4 * l + (j + i as usize) % 4] = x[4 * l + j];
                        }
                    }
                    if got != want {
                        return Some(format!("rotate_words_right({:x?}, {}) -> {:x?}", x, i, got));
                    }
                }
            }
            None
        });
    }
    rep
}
