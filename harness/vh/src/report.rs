//! Result file written by every engine run; the python driver merges configs, applies
//! KNOWN_FINDINGS.txt and writes evidence/<id>.json.
use serde_json::{json, Map, Value};
use std::collections::BTreeMap;
use std::time::Instant;

pub struct Violation {
    pub sig: String,
    pub detail: String,
    pub replay: Value,
    pub count: u64,
}

pub struct Report {
    pub prop: String,
    pub tier: String,
    pub config: String,
    pub start: Instant,
    pub evaluations: u64,
    pub nontrivial: u64,
    pub rule: String,
    pub samples: Vec<Value>,
    pub extra: Map<String, Value>,
    pub violations: BTreeMap<String, Violation>,
    pub exhaustive: bool,
    pub assumptions: Vec<String>,
}

impl Report {
    pub fn new(prop: &str, tier: &str, config: &str) -> Report {
        Report {
            prop: prop.to_string(),
            tier: tier.to_string(),
            config: config.to_string(),
            start: Instant::now(),
            evaluations: 0,
            nontrivial: 0,
            rule: String::new(),
            samples: Vec::new(),
            extra: Map::new(),
            violations: BTreeMap::new(),
            exhaustive: true,
            assumptions: Vec::new(),
        }
    }
    pub fn sample(&mut self, v: Value) {
        if self.samples.len() < 6 {
            self.samples.push(v);
        }
    }
    /// record a violation; the first one per signature is kept (enumeration is simplest-first)
    pub fn violation(&mut self, sig: &str, detail: String, replay: Value) {
        if let Some(v) = self.violations.get_mut(sig) {
            v.count += 1;
            return;
        }
        self.violations.insert(sig.to_string(), Violation { sig: sig.to_string(), detail, replay, count: 1 });
    }
    pub fn set(&mut self, k: &str, v: Value) {
        self.extra.insert(k.to_string(), v);
    }
    pub fn add(&mut self, k: &str, n: u64) {
        let cur = self.extra.get(k).and_then(|v| v.as_u64()).unwrap_or(0);
        self.extra.insert(k.to_string(), json!(cur + n));
    }
    pub fn to_json(&self) -> Value {
        let viol: Vec<Value> = self
            .violations
            .values()
            .map(|v| json!({"sig": v.sig, "detail": v.detail, "replay": v.replay, "count": v.count}))
            .collect();
        json!({
            "property": self.prop,
            "tier": self.tier,
            "config": self.config,
            "evaluations": self.evaluations,
            "distinct_nontrivial": self.nontrivial,
            "rule": self.rule,
            "samples": self.samples,
            "extra": Value::Object(self.extra.clone()),
            "violations": viol,
            "exhaustive": self.exhaustive,
            "assumptions": self.assumptions,
            "wall_s": self.start.elapsed().as_secs_f64(),
        })
    }
    pub fn write(&self, path: &str) {
        std::fs::write(path, serde_json::to_string_pretty(&self.to_json()).unwrap()).unwrap();
    }
}

// ---------------------------------------------------------------------------------------------
// panic capture
use std::cell::RefCell;
thread_local! { static LAST_PANIC: RefCell<String> = RefCell::new(String::new()); }

pub fn install_quiet_panic_hook() {
    std::panic::set_hook(Box::new(|info| {
        let msg = if let Some(s) = info.payload().downcast_ref::<&str>() {
            s.to_string()
        } else if let Some(s) = info.payload().downcast_ref::<String>() {
            s.clone()
        } else {
            "<non-string panic>".to_string()
        };
        let loc = info.location().map(|l| format!("{}:{}", l.file(), l.line())).unwrap_or_default();
        LAST_PANIC.with(|p| *p.borrow_mut() = format!("{} @ {}", msg, loc));
        if std::env::var("VH_SHOW_PANICS").is_ok() {
            eprintln!("panic: {} @ {}", msg, loc);
        }
    }));
}

/// Run f; Err(description) if it panicked.
pub fn guarded<R>(f: impl FnOnce() -> R) -> Result<R, String> {
    match std::panic::catch_unwind(std::panic::AssertUnwindSafe(f)) {
        Ok(r) => Ok(r),
        Err(_) => Err(LAST_PANIC.with(|p| p.borrow().clone())),
    }
}

/// Normalise a panic description into something stable enough for a signature: strip paths down to
/// the file name and drop line numbers.
pub fn panic_class(desc: &str) -> String {
    let (msg, loc) = match desc.rfind(" @ ") {
        Some(i) => (&desc[..i], &desc[i + 3..]),
        None => (desc, ""),
    };
    let file = loc.rsplit('/').next().unwrap_or("").split(':').next().unwrap_or("");
    let m: String = msg.chars().filter(|c| !c.is_ascii_digit()).take(48).collect();
    let m = m.replace(' ', "_");
    format!("{}@{}", m, file)
}

pub fn fnv(data: &[u8]) -> u64 {
    let mut h = 0xcbf29ce484222325u64;
    for b in data {
        h ^= *b as u64;
        h = h.wrapping_mul(0x100000001b3);
    }
    h
}
