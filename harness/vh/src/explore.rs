//! Engine H: explicit-state breadth-first exploration of a system whose transition function calls
//! the real implementation. Level-synchronous, parallel over (state, action) pairs, exact
//! deduplication on the full state key, parent pointers for shortest counterexamples.
use rayon::prelude::*;
use std::collections::HashMap;
use std::hash::Hash;

pub enum Step<S> {
    /// successor (expanded iff `Sys::expandable` says so)
    Next(S),
    /// the transition violated the oracle; successor is not created
    Bad { sig: String, detail: String },
    /// action not enabled in this state
    Skip,
}

pub trait Sys: Sync {
    type S: Clone + Eq + Hash + Send + Sync;
    type A: Clone + Send + Sync;
    fn init(&self) -> Vec<Self::S>;
    fn actions(&self, s: &Self::S) -> Vec<Self::A>;
    fn step(&self, s: &Self::S, a: &Self::A) -> Step<Self::S>;
    /// states for which this is false are kept (and counted) but not expanded: frontier cut
    fn expandable(&self, _s: &Self::S) -> bool {
        true
    }
    /// classification used only for the "distinct outcomes" vacuity report
    fn class(&self, _s: &Self::S, _a: &Self::A, _st: &Step<Self::S>) -> Option<String> {
        None
    }
}

pub struct BadTrace<A> {
    pub sig: String,
    pub detail: String,
    pub path: Vec<A>, // actions from an initial state, last one is the violating action
    pub init_index: usize,
    pub count: u64,
}

pub struct Outcome<S, A> {
    pub states: Vec<S>,
    pub unique_states: usize,
    pub transitions: u64,
    pub cut_states: usize,
    pub max_depth: usize,
    pub fixpoint: bool,
    pub capped: Option<String>,
    pub bad: Vec<BadTrace<A>>,
    pub classes: HashMap<String, u64>,
    pub sample_paths: Vec<Vec<A>>,
}

pub fn bfs<M: Sys>(m: &M, max_depth: usize, max_states: usize) -> Outcome<M::S, M::A> {
    bfs_capped(m, max_depth, max_states, std::time::Duration::from_secs(3600 * 24))
}

/// caps are enforced between chunks of the frontier, so a run away state space (e.g. a defect that
/// makes the state space infinite) stops within seconds of the cap; a capped run is never a fixpoint
pub fn bfs_capped<M: Sys>(m: &M, max_depth: usize, max_states: usize, max_wall: std::time::Duration) -> Outcome<M::S, M::A> {
    let started = std::time::Instant::now();
    let mut capped: Option<String> = None;
    let mut states: Vec<M::S> = Vec::new();
    let mut parent: Vec<Option<(usize, M::A)>> = Vec::new();
    let mut root_of: Vec<usize> = Vec::new();
    let mut index: HashMap<M::S, usize> = HashMap::new();
    let mut frontier: Vec<usize> = Vec::new();
    for (i, s) in m.init().into_iter().enumerate() {
        if !index.contains_key(&s) {
            index.insert(s.clone(), states.len());
            if m.expandable(&s) {
                frontier.push(states.len());
            }
            states.push(s);
            parent.push(None);
            root_of.push(i);
        }
    }
    let mut transitions = 0u64;
    let mut cut_states = 0usize;
    let mut depth = 0usize;
    let mut bad: HashMap<String, BadTrace<M::A>> = HashMap::new();
    let mut classes: HashMap<String, u64> = HashMap::new();
    let mut fixpoint = false;
    let path_to = |parent: &Vec<Option<(usize, M::A)>>, mut i: usize| -> Vec<M::A> {
        let mut p = Vec::new();
        while let Some((pi, a)) = &parent[i] {
            p.push(a.clone());
            i = *pi;
        }
        p.reverse();
        p
    };
    while !frontier.is_empty() {
        if depth >= max_depth {
            break;
        }
        if states.len() >= max_states {
            capped = Some(format!("state cap {} reached", max_states));
            break;
        }
        // expand in parallel; successors already known are only counted (the index is read-only
        // during a level), new ones are returned for the sequential merge
        struct Part<S, A> {
            transitions: u64,
            fresh: Vec<(usize, A, S)>,
            bad: Vec<(usize, A, String, String)>,
            classes: HashMap<String, u64>,
        }
        let mut next = Vec::new();
        for chunk in frontier.chunks(512) {
        if states.len() >= max_states {
            capped = Some(format!("state cap {} reached", max_states));
            break;
        }
        if started.elapsed() > max_wall {
            capped = Some(format!("wall-clock cap {:?} reached", max_wall));
            break;
        }
        let index_ro = &index;
        let states_ro = &states;
        let parts: Vec<Part<M::S, M::A>> = chunk
            .par_iter()
            .map(|&si| {
                let s = &states_ro[si];
                let mut part = Part { transitions: 0, fresh: Vec::new(), bad: Vec::new(), classes: HashMap::new() };
                for a in m.actions(s) {
                    let st = m.step(s, &a);
                    if let Some(c) = m.class(s, &a, &st) {
                        *part.classes.entry(c).or_insert(0) += 1;
                    }
                    match st {
                        Step::Skip => {}
                        Step::Bad { sig, detail } => {
                            part.transitions += 1;
                            part.bad.push((si, a, sig, detail));
                        }
                        Step::Next(s2) => {
                            part.transitions += 1;
                            if !index_ro.contains_key(&s2) {
                                part.fresh.push((si, a, s2));
                            }
                        }
                    }
                }
                part
            })
            .collect();
        for part in parts {
            transitions += part.transitions;
            for (c, n) in part.classes {
                *classes.entry(c).or_insert(0) += n;
            }
            for (si, a, sig, detail) in part.bad {
                if let Some(b) = bad.get_mut(&sig) {
                    b.count += 1;
                } else {
                    let mut p = path_to(&parent, si);
                    p.push(a);
                    bad.insert(sig.clone(), BadTrace { sig, detail, path: p, init_index: root_of[si], count: 1 });
                }
            }
            for (si, a, s2) in part.fresh {
                if index.contains_key(&s2) {
                    continue;
                }
                index.insert(s2.clone(), states.len());
                if m.expandable(&s2) {
                    next.push(states.len());
                } else {
                    cut_states += 1;
                }
                states.push(s2);
                parent.push(Some((si, a)));
                root_of.push(root_of[si]);
            }
        }
        }
        if capped.is_some() {
            break;
        }
        depth += 1;
        if next.is_empty() {
            fixpoint = true;
        }
        frontier = next;
    }
    let mut sample_paths = Vec::new();
    let n = states.len();
    for k in [n / 3, 2 * n / 3, n.saturating_sub(1)] {
        if k < n {
            sample_paths.push(path_to(&parent, k));
        }
    }
    let mut bad: Vec<BadTrace<M::A>> = bad.into_values().collect();
    bad.sort_by(|a, b| a.path.len().cmp(&b.path.len()).then(a.sig.cmp(&b.sig)));
    Outcome {
        unique_states: states.len(),
        states,
        transitions,
        cut_states,
        max_depth: depth,
        fixpoint: fixpoint && capped.is_none(),
        capped,
        bad,
        classes,
        sample_paths,
    }
}
