//! BLAKE (SHA-3 final round document, unsalted). Scalar G function, message as a byte queue,
//! padding written as "append bits", counter kept as one wide integer of *message bits absorbed*.
use crate::blake_consts::*;

pub const SIGMA: [[usize; 16]; 10] = [
    [0, 1, 2, 3, 4, 5, 6, 7, 8, 9, 10, 11, 12, 13, 14, 15],
    [14, 10, 4, 8, 9, 15, 13, 6, 1, 12, 0, 2, 11, 7, 5, 3],
    [11, 8, 12, 0, 5, 2, 15, 13, 10, 14, 3, 6, 7, 1, 9, 4],
    [7, 9, 3, 1, 13, 12, 11, 14, 2, 6, 5, 10, 4, 0, 15, 8],
    [9, 0, 5, 7, 2, 4, 10, 15, 14, 1, 11, 12, 6, 8, 3, 13],
    [2, 12, 6, 10, 0, 11, 8, 3, 4, 13, 7, 5, 15, 14, 1, 9],
    [12, 5, 1, 15, 14, 13, 4, 10, 0, 7, 6, 3, 9, 2, 8, 11],
    [13, 11, 7, 14, 12, 1, 3, 9, 5, 0, 15, 4, 8, 6, 2, 10],
    [6, 15, 14, 9, 11, 3, 0, 8, 12, 2, 13, 7, 1, 4, 10, 5],
    [10, 2, 8, 4, 7, 6, 1, 5, 15, 11, 9, 14, 3, 12, 13, 0],
];

/// 32-bit-word compression (BLAKE-224/256). `t` = counter value for this block (64 bits).
pub fn compress32(h: &mut [u32; 8], block: &[u8], t: u64, rounds: usize) {
    assert_eq!(block.len(), 64);
    let mut m = [0u32; 16];
    for i in 0..16 {
        m[i] = u32::from_be_bytes([block[4 * i], block[4 * i + 1], block[4 * i + 2], block[4 * i + 3]]);
    }
    let mut v = [0u32; 16];
    v[..8].copy_from_slice(h);
    v[8..].copy_from_slice(&U32[..8]);
    let t0 = t as u32;
    let t1 = (t >> 32) as u32;
    v[12] ^= t0;
    v[13] ^= t0;
    v[14] ^= t1;
    v[15] ^= t1;
    let mut g = |a: usize, b: usize, c: usize, d: usize, r: usize, i: usize| {
        let s = &SIGMA[r % 10];
        v[a] = v[a].wrapping_add(v[b]).wrapping_add(m[s[2 * i]] ^ U32[s[2 * i + 1]]);
        v[d] = (v[d] ^ v[a]).rotate_right(16);
        v[c] = v[c].wrapping_add(v[d]);
        v[b] = (v[b] ^ v[c]).rotate_right(12);
        v[a] = v[a].wrapping_add(v[b]).wrapping_add(m[s[2 * i + 1]] ^ U32[s[2 * i]]);
        v[d] = (v[d] ^ v[a]).rotate_right(8);
        v[c] = v[c].wrapping_add(v[d]);
        v[b] = (v[b] ^ v[c]).rotate_right(7);
    };
    for r in 0..rounds {
        g(0, 4, 8, 12, r, 0);
        g(1, 5, 9, 13, r, 1);
        g(2, 6, 10, 14, r, 2);
        g(3, 7, 11, 15, r, 3);
        g(0, 5, 10, 15, r, 4);
        g(1, 6, 11, 12, r, 5);
        g(2, 7, 8, 13, r, 6);
        g(3, 4, 9, 14, r, 7);
    }
    for i in 0..8 {
        h[i] ^= v[i] ^ v[i + 8];
    }
}

/// 64-bit-word compression (BLAKE-384/512). `t` = counter value for this block (128 bits).
pub fn compress64(h: &mut [u64; 8], block: &[u8], t: u128, rounds: usize) {
    assert_eq!(block.len(), 128);
    let mut m = [0u64; 16];
    for i in 0..16 {
        let mut b = [0u8; 8];
        b.copy_from_slice(&block[8 * i..8 * i + 8]);
        m[i] = u64::from_be_bytes(b);
    }
    let mut v = [0u64; 16];
    v[..8].copy_from_slice(h);
    v[8..].copy_from_slice(&U64[..8]);
    let t0 = t as u64;
    let t1 = (t >> 64) as u64;
    v[12] ^= t0;
    v[13] ^= t0;
    v[14] ^= t1;
    v[15] ^= t1;
    let mut g = |a: usize, b: usize, c: usize, d: usize, r: usize, i: usize| {
        let s = &SIGMA[r % 10];
        v[a] = v[a].wrapping_add(v[b]).wrapping_add(m[s[2 * i]] ^ U64[s[2 * i + 1]]);
        v[d] = (v[d] ^ v[a]).rotate_right(32);
        v[c] = v[c].wrapping_add(v[d]);
        v[b] = (v[b] ^ v[c]).rotate_right(25);
        v[a] = v[a].wrapping_add(v[b]).wrapping_add(m[s[2 * i + 1]] ^ U64[s[2 * i]]);
        v[d] = (v[d] ^ v[a]).rotate_right(16);
        v[c] = v[c].wrapping_add(v[d]);
        v[b] = (v[b] ^ v[c]).rotate_right(11);
    };
    for r in 0..rounds {
        g(0, 4, 8, 12, r, 0);
        g(1, 5, 9, 13, r, 1);
        g(2, 6, 10, 14, r, 2);
        g(3, 7, 11, 15, r, 3);
        g(0, 5, 10, 15, r, 4);
        g(1, 6, 11, 12, r, 5);
        g(2, 7, 8, 13, r, 6);
        g(3, 4, 9, 14, r, 7);
    }
    for i in 0..8 {
        h[i] ^= v[i] ^ v[i + 8];
    }
}

#[derive(Clone)]
enum H {
    W32([u32; 8]),
    W64([u64; 8]),
}

/// Incremental model. `bits_absorbed` is the true number of message bits compressed so far
/// (it can be overwritten to model a fast-forwarded counter).
#[derive(Clone)]
pub struct Blake {
    pub bits: usize,
    h: H,
    pub bits_absorbed: u128,
    buf: Vec<u8>,
}

impl Blake {
    pub fn new(bits: usize) -> Blake {
        let h = match bits {
            224 => H::W32(IV224),
            256 => H::W32(IV256),
            384 => H::W64(IV384),
            512 => H::W64(IV512),
            _ => panic!("bad BLAKE size"),
        };
        Blake { bits, h, bits_absorbed: 0, buf: Vec::new() }
    }
    pub fn block_bytes(&self) -> usize {
        if self.bits <= 256 { 64 } else { 128 }
    }
    fn counter_mask(&self) -> u128 {
        if self.bits <= 256 { (1u128 << 64) - 1 } else { u128::MAX }
    }
    fn compress(&mut self, block: &[u8], t: u128) {
        match &mut self.h {
            H::W32(h) => compress32(h, block, t as u64, 14),
            H::W64(h) => compress64(h, block, t, 16),
        }
    }
    pub fn update(&mut self, data: &[u8]) {
        let b = self.block_bytes();
        self.buf.extend_from_slice(data);
        let mut off = 0;
        // a full block is compressed as soon as it is complete (the counter then includes it)
        while self.buf.len() - off >= b {
            self.bits_absorbed = (self.bits_absorbed + 8 * b as u128) & self.counter_mask();
            let t = self.bits_absorbed;
            let blk = self.buf[off..off + b].to_vec();
            self.compress(&blk, t);
            off += b;
        }
        self.buf.drain(..off);
    }
    pub fn finalize(mut self) -> Vec<u8> {
        let b = self.block_bytes();
        let lenbytes = b / 8;
        let rem = self.buf.len();
        let total = (self.bits_absorbed + 8 * rem as u128) & self.counter_mask();
        // padding as a bit string: 1, zeros, marker bit, length; total a multiple of the block
        let mut tail: Vec<u8> = self.buf.clone();
        tail.push(0x80);
        while (tail.len() + lenbytes) % b != 0 {
            tail.push(0);
        }
        if self.bits == 256 || self.bits == 512 {
            let l = tail.len();
            tail[l - 1] |= 0x01;
        }
        let lb = total.to_be_bytes();
        tail.extend_from_slice(&lb[16 - lenbytes..]);
        assert!(tail.len() == b || tail.len() == 2 * b);
        let nblk = tail.len() / b;
        for i in 0..nblk {
            // counter = message bits up to and including this block; 0 if the block holds none
            let t = if i == 0 {
                if rem == 0 { 0 } else { total }
            } else {
                0
            };
            let blk = tail[i * b..(i + 1) * b].to_vec();
            self.compress(&blk, t);
        }
        let mut out = Vec::new();
        match &self.h {
            H::W32(h) => h.iter().for_each(|x| out.extend_from_slice(&x.to_be_bytes())),
            H::W64(h) => h.iter().for_each(|x| out.extend_from_slice(&x.to_be_bytes())),
        }
        out.truncate(self.bits / 8);
        out
    }
}

pub fn blake(bits: usize, msg: &[u8]) -> Vec<u8> {
    let mut b = Blake::new(bits);
    b.update(msg);
    b.finalize()
}
