//! Skein 1.3 simple hash (sections 3.4-3.5): UBI over the model's own Threefish, tweak as one
//! 128-bit integer, position as a wide integer.
use crate::threefish;

const TYPE_CFG: u128 = 4;
const TYPE_MSG: u128 = 48;
const TYPE_OUT: u128 = 63;

fn ubi_block(g: &[u8], block: &[u8], pos: u128, typ: u128, first: bool, last: bool) -> Vec<u8> {
    let b = g.len();
    let mut padded = block.to_vec();
    padded.resize(b, 0);
    // tweak: position in bits 0..95, type in 120..125, first = bit 126, final = bit 127
    let t: u128 = (pos & ((1u128 << 96) - 1)) | (typ << 120) | ((first as u128) << 126) | ((last as u128) << 127);
    let c = threefish::encrypt(g, [t as u64, (t >> 64) as u64], &padded);
    c.iter().zip(padded.iter()).map(|(x, y)| x ^ y).collect()
}

/// Complete UBI over a message held in memory.
pub fn ubi(g: &[u8], msg: &[u8], typ: u128) -> Vec<u8> {
    let b = g.len();
    let blocks: Vec<&[u8]> = if msg.is_empty() { vec![&msg[..]] } else { msg.chunks(b).collect() };
    let mut g = g.to_vec();
    let mut pos = 0u128;
    let n = blocks.len();
    for (i, bl) in blocks.iter().enumerate() {
        pos += bl.len() as u128;
        g = ubi_block(&g, bl, pos, typ, i == 0, i == n - 1);
    }
    g
}

pub fn config_block(out_bytes: u64) -> Vec<u8> {
    let mut cfg = Vec::new();
    cfg.extend_from_slice(b"SHA3");
    cfg.extend_from_slice(&1u16.to_le_bytes());
    cfg.extend_from_slice(&[0, 0]);
    cfg.extend_from_slice(&(out_bytes * 8).to_le_bytes());
    cfg.extend_from_slice(&[0u8; 16]);
    cfg
}

/// Incremental model (message UBI with the last block held back); `pos` can be overwritten to
/// model a fast-forwarded byte position.
#[derive(Clone)]
pub struct Skein {
    pub state_bytes: usize,
    pub out_bytes: usize,
    g: Vec<u8>,
    pub pos: u128,
    first: bool,
    buf: Vec<u8>,
}

impl Skein {
    pub fn new(state_bytes: usize, out_bytes: usize) -> Skein {
        assert!(state_bytes == 32 || state_bytes == 64 || state_bytes == 128);
        let g = ubi(&vec![0u8; state_bytes], &config_block(out_bytes as u64), TYPE_CFG);
        Skein { state_bytes, out_bytes, g, pos: 0, first: true, buf: Vec::new() }
    }
    pub fn update(&mut self, data: &[u8]) {
        let b = self.state_bytes;
        self.buf.extend_from_slice(data);
        // process every block that is known not to be the last one
        let mut off = 0;
        while self.buf.len() - off > b {
            self.pos += b as u128;
            self.g = ubi_block(&self.g, &self.buf[off..off + b], self.pos, TYPE_MSG, self.first, false);
            self.first = false;
            off += b;
        }
        self.buf.drain(..off);
    }
    pub fn finalize(mut self) -> Vec<u8> {
        self.pos += self.buf.len() as u128;
        self.g = ubi_block(&self.g, &self.buf, self.pos, TYPE_MSG, self.first, true);
        let mut out = Vec::new();
        let mut i = 0u64;
        while out.len() < self.out_bytes {
            out.extend_from_slice(&ubi(&self.g, &i.to_le_bytes(), TYPE_OUT));
            i += 1;
        }
        out.truncate(self.out_bytes);
        out
    }
}

pub fn skein(state_bytes: usize, msg: &[u8], out_bytes: usize) -> Vec<u8> {
    let mut s = Skein::new(state_bytes, out_bytes);
    s.update(msg);
    s.finalize()
}
