//! vref: deliberately naive reference models written from the specifications.
//! No SIMD, no dependency on any crate under test.
pub mod blake;
#[rustfmt::skip]
pub mod blake_consts;
pub mod blb;
pub mod chacha;
pub mod groestl;
pub mod jh;
pub mod selftest;
pub mod skein;
pub mod threefish;

pub fn hex(b: &[u8]) -> String {
    let mut s = String::with_capacity(b.len() * 2);
    for x in b {
        s.push_str(&format!("{:02x}", x));
    }
    s
}

pub fn unhex(s: &str) -> Vec<u8> {
    let s: String = s.chars().filter(|c| !c.is_whitespace()).collect();
    assert!(s.len() % 2 == 0);
    (0..s.len() / 2)
        .map(|i| u8::from_str_radix(&s[2 * i..2 * i + 2], 16).unwrap())
        .collect()
}
