//! vref-selftest: exit 0 = all models reproduce all vectors; 2 = machinery broken.
fn main() {
    let repo = std::env::var("VERIF_REPO").unwrap_or_else(|_| "/repo".to_string());
    let (pass, fail) = vref::selftest::run(&repo);
    println!("vref-selftest: pass={} fail={}", pass, fail);
    if fail != 0 {
        std::process::exit(2);
    }
}
