//! Groestl (final-round tweaked version): 8 x 8 / 8 x 16 byte matrix, AES S-box generated from
//! GF(2^8) inversion plus the affine map, ShiftBytes vectors, MixBytes = circ(02,02,03,04,05,03,05,07).
fn xt(a: u8) -> u8 {
    let s = (a as u16) << 1;
    if s & 0x100 != 0 { (s ^ 0x11b) as u8 } else { s as u8 }
}
fn gmul(mut a: u8, mut b: u8) -> u8 {
    let mut r = 0;
    while b != 0 {
        if b & 1 != 0 {
            r ^= a;
        }
        a = xt(a);
        b >>= 1;
    }
    r
}

pub struct Tables {
    sbox: [u8; 256],
    mul: [[u8; 256]; 8], // mul[k][x] = MB[k] * x
}
const MB: [u8; 8] = [2, 2, 3, 4, 5, 3, 5, 7];
const SH_P8: [usize; 8] = [0, 1, 2, 3, 4, 5, 6, 7];
const SH_Q8: [usize; 8] = [1, 3, 5, 7, 0, 2, 4, 6];
const SH_P16: [usize; 8] = [0, 1, 2, 3, 4, 5, 6, 11];
const SH_Q16: [usize; 8] = [1, 3, 5, 11, 0, 2, 4, 6];

impl Tables {
    pub fn new() -> Tables {
        let mut sbox = [0u8; 256];
        for a in 0..256usize {
            let inv = if a == 0 { 0 } else { (1..256usize).find(|b| gmul(a as u8, *b as u8) == 1).unwrap() as u8 };
            let mut y = inv;
            for i in 1..5 {
                y ^= inv.rotate_left(i);
            }
            sbox[a] = y ^ 0x63;
        }
        assert!(sbox[0] == 0x63 && sbox[1] == 0x7c && sbox[0x53] == 0xed);
        let mut mul = [[0u8; 256]; 8];
        for k in 0..8 {
            for x in 0..256usize {
                mul[k][x] = gmul(MB[k], x as u8);
            }
        }
        Tables { sbox, mul }
    }
}
impl Default for Tables {
    fn default() -> Self {
        Self::new()
    }
}

type Mat = Vec<Vec<u8>>; // 8 rows x cols

fn perm(t: &Tables, st: &Mat, q: bool, cols: usize) -> Mat {
    let rounds = if cols == 8 { 10 } else { 14 };
    let sh: &[usize; 8] = match (q, cols) {
        (false, 8) => &SH_P8,
        (true, 8) => &SH_Q8,
        (false, 16) => &SH_P16,
        (true, 16) => &SH_Q16,
        _ => unreachable!(),
    };
    let mut st = st.clone();
    for r in 0..rounds {
        // AddRoundConstant
        if !q {
            for j in 0..cols {
                st[0][j] ^= ((j as u8) << 4) ^ r as u8;
            }
        } else {
            for row in st.iter_mut() {
                for x in row.iter_mut() {
                    *x ^= 0xff;
                }
            }
            for j in 0..cols {
                st[7][j] ^= ((j as u8) << 4) ^ r as u8;
            }
        }
        // SubBytes
        for row in st.iter_mut() {
            for x in row.iter_mut() {
                *x = t.sbox[*x as usize];
            }
        }
        // ShiftBytes
        let mut s2 = vec![vec![0u8; cols]; 8];
        for i in 0..8 {
            for j in 0..cols {
                s2[i][j] = st[i][(j + sh[i]) % cols];
            }
        }
        // MixBytes
        let mut n = vec![vec![0u8; cols]; 8];
        for j in 0..cols {
            for i in 0..8 {
                let mut v = 0;
                for k in 0..8 {
                    v ^= t.mul[k][s2[(i + k) % 8][j] as usize];
                }
                n[i][j] = v;
            }
        }
        st = n;
    }
    st
}

fn tomat(b: &[u8], cols: usize) -> Mat {
    (0..8).map(|i| (0..cols).map(|j| b[j * 8 + i]).collect()).collect()
}
fn frommat(m: &Mat, cols: usize) -> Vec<u8> {
    let mut out = Vec::with_capacity(8 * cols);
    for j in 0..cols {
        for i in 0..8 {
            out.push(m[i][j]);
        }
    }
    out
}
fn xor(a: &Mat, b: &Mat) -> Mat {
    a.iter().zip(b.iter()).map(|(r, s)| r.iter().zip(s.iter()).map(|(x, y)| x ^ y).collect()).collect()
}

#[derive(Clone)]
/// Incremental model; `blocks` (message blocks compressed so far) may be overwritten.
pub struct Groestl<'a> {
    t: &'a Tables,
    pub bits: usize,
    cols: usize,
    h: Mat,
    pub blocks: u128,
    buf: Vec<u8>,
}

impl<'a> Groestl<'a> {
    pub fn new(t: &'a Tables, bits: usize) -> Groestl<'a> {
        assert!(bits == 224 || bits == 256 || bits == 384 || bits == 512);
        let cols = if bits <= 256 { 8 } else { 16 };
        let b = cols * 8;
        let mut iv = vec![0u8; b];
        iv[b - 2] = (bits >> 8) as u8;
        iv[b - 1] = bits as u8;
        Groestl { t, bits, cols, h: tomat(&iv, cols), blocks: 0, buf: Vec::new() }
    }
    pub fn block_bytes(&self) -> usize {
        self.cols * 8
    }
    fn compress(&mut self, blk: &[u8]) {
        let m = tomat(blk, self.cols);
        let p = perm(self.t, &xor(&self.h, &m), false, self.cols);
        let q = perm(self.t, &m, true, self.cols);
        self.h = xor(&xor(&p, &q), &self.h);
        self.blocks += 1;
    }
    pub fn update(&mut self, data: &[u8]) {
        let b = self.block_bytes();
        self.buf.extend_from_slice(data);
        let mut off = 0;
        while self.buf.len() - off >= b {
            let blk = self.buf[off..off + b].to_vec();
            self.compress(&blk);
            off += b;
        }
        self.buf.drain(..off);
    }
    pub fn finalize(mut self) -> Vec<u8> {
        let b = self.block_bytes();
        let mut m = std::mem::take(&mut self.buf);
        let rem = m.len();
        m.push(0x80);
        while (m.len() + 8) % b != 0 {
            m.push(0);
        }
        let pad_blocks = ((m.len() + 8) / b) as u128;
        debug_assert!(rem < b);
        let total = (self.blocks + pad_blocks) & ((1u128 << 64) - 1);
        m.extend_from_slice(&(total as u64).to_be_bytes());
        for c in m.chunks(b) {
            let blk = c.to_vec();
            self.compress(&blk);
        }
        let o = frommat(&xor(&perm(self.t, &self.h, false, self.cols), &self.h), self.cols);
        o[b - self.bits / 8..].to_vec()
    }
}

pub fn groestl(t: &Tables, bits: usize, msg: &[u8]) -> Vec<u8> {
    let mut g = Groestl::new(t, bits);
    g.update(msg);
    g.finalize()
}
