//! Threefish-256/512/1024 from Skein 1.3 section 3.3: loops over rounds d, subkeys computed on
//! the fly, permutation applied as v[i] = f[pi(i)].
pub const C240: u64 = 0x1BD1_1BDA_A9FC_1A22;

const R4: [[u32; 2]; 8] = [[14, 16], [52, 57], [23, 40], [5, 37], [25, 33], [46, 12], [58, 22], [32, 32]];
const R8: [[u32; 4]; 8] = [
    [46, 36, 19, 37],
    [33, 27, 14, 42],
    [17, 49, 36, 39],
    [44, 9, 54, 56],
    [39, 30, 34, 24],
    [13, 50, 10, 17],
    [25, 29, 39, 43],
    [8, 35, 56, 22],
];
const R16: [[u32; 8]; 8] = [
    [24, 13, 8, 47, 8, 17, 22, 37],
    [38, 19, 10, 55, 49, 18, 23, 52],
    [33, 4, 51, 13, 34, 41, 59, 17],
    [5, 20, 48, 41, 47, 28, 16, 25],
    [41, 9, 37, 31, 12, 47, 44, 30],
    [16, 34, 56, 51, 4, 53, 42, 41],
    [31, 44, 47, 46, 19, 42, 44, 25],
    [9, 48, 35, 52, 23, 31, 37, 20],
];
const PI4: [usize; 4] = [0, 3, 2, 1];
const PI8: [usize; 8] = [2, 1, 4, 7, 6, 5, 0, 3];
const PI16: [usize; 16] = [0, 9, 2, 13, 6, 11, 4, 15, 10, 7, 12, 3, 14, 5, 8, 1];

fn rot(nw: usize, d: usize, j: usize) -> u32 {
    match nw {
        4 => R4[d % 8][j],
        8 => R8[d % 8][j],
        16 => R16[d % 8][j],
        _ => unreachable!(),
    }
}
fn pi(nw: usize) -> &'static [usize] {
    match nw {
        4 => &PI4,
        8 => &PI8,
        16 => &PI16,
        _ => unreachable!(),
    }
}
fn nrounds(nw: usize) -> usize {
    if nw == 16 { 80 } else { 72 }
}

fn subkey(key: &[u64], tw: [u64; 2], s: usize) -> Vec<u64> {
    let nw = key.len();
    let mut k = key.to_vec();
    let mut x = C240;
    for w in key {
        x ^= *w;
    }
    k.push(x);
    let t = [tw[0], tw[1], tw[0] ^ tw[1]];
    let mut sk: Vec<u64> = (0..nw).map(|i| k[(s + i) % (nw + 1)]).collect();
    sk[nw - 3] = sk[nw - 3].wrapping_add(t[s % 3]);
    sk[nw - 2] = sk[nw - 2].wrapping_add(t[(s + 1) % 3]);
    sk[nw - 1] = sk[nw - 1].wrapping_add(s as u64);
    sk
}

pub fn encrypt_words(key: &[u64], tw: [u64; 2], block: &[u64]) -> Vec<u64> {
    let nw = key.len();
    assert!(nw == 4 || nw == 8 || nw == 16);
    assert_eq!(block.len(), nw);
    let nr = nrounds(nw);
    let p = pi(nw);
    let mut v = block.to_vec();
    for d in 0..nr {
        if d % 4 == 0 {
            let sk = subkey(key, tw, d / 4);
            for i in 0..nw {
                v[i] = v[i].wrapping_add(sk[i]);
            }
        }
        let mut f = vec![0u64; nw];
        for j in 0..nw / 2 {
            let (x0, x1) = (v[2 * j], v[2 * j + 1]);
            let y0 = x0.wrapping_add(x1);
            let y1 = x1.rotate_left(rot(nw, d, j)) ^ y0;
            f[2 * j] = y0;
            f[2 * j + 1] = y1;
        }
        for i in 0..nw {
            v[i] = f[p[i]];
        }
    }
    let sk = subkey(key, tw, nr / 4);
    for i in 0..nw {
        v[i] = v[i].wrapping_add(sk[i]);
    }
    v
}

pub fn decrypt_words(key: &[u64], tw: [u64; 2], block: &[u64]) -> Vec<u64> {
    let nw = key.len();
    assert!(nw == 4 || nw == 8 || nw == 16);
    assert_eq!(block.len(), nw);
    let nr = nrounds(nw);
    let p = pi(nw);
    let mut v = block.to_vec();
    let sk = subkey(key, tw, nr / 4);
    for i in 0..nw {
        v[i] = v[i].wrapping_sub(sk[i]);
    }
    for d in (0..nr).rev() {
        // undo permutation: v[i] = f[p[i]]  =>  f[p[i]] = v[i]
        let mut f = vec![0u64; nw];
        for i in 0..nw {
            f[p[i]] = v[i];
        }
        for j in 0..nw / 2 {
            let (y0, y1) = (f[2 * j], f[2 * j + 1]);
            let x1 = (y1 ^ y0).rotate_right(rot(nw, d, j));
            let x0 = y0.wrapping_sub(x1);
            v[2 * j] = x0;
            v[2 * j + 1] = x1;
        }
        if d % 4 == 0 {
            let sk = subkey(key, tw, d / 4);
            for i in 0..nw {
                v[i] = v[i].wrapping_sub(sk[i]);
            }
        }
    }
    v
}

pub fn words(b: &[u8]) -> Vec<u64> {
    assert!(b.len() % 8 == 0);
    b.chunks(8)
        .map(|c| {
            let mut a = [0u8; 8];
            a.copy_from_slice(c);
            u64::from_le_bytes(a)
        })
        .collect()
}
pub fn bytes(w: &[u64]) -> Vec<u8> {
    w.iter().flat_map(|x| x.to_le_bytes()).collect()
}

/// key, block as little-endian byte strings of 32/64/128 bytes
pub fn encrypt(key: &[u8], tw: [u64; 2], block: &[u8]) -> Vec<u8> {
    bytes(&encrypt_words(&words(key), tw, &words(block)))
}
pub fn decrypt(key: &[u8], tw: [u64; 2], block: &[u8]) -> Vec<u8> {
    bytes(&decrypt_words(&words(key), tw, &words(block)))
}
