//! Binds the reference models to ground truth that does not come from the verifier: RFC 7539
//! vectors, the XChaCha draft HChaCha20 vector, every .blb KAT shipped in the repository, the
//! Threefish vectors of the Skein submission, derived constants.
use crate::*;

struct T {
    pass: usize,
    fail: usize,
}
impl T {
    fn eq(&mut self, name: &str, got: &[u8], want: &[u8]) {
        if got == want {
            self.pass += 1;
        } else {
            self.fail += 1;
            eprintln!("SELFTEST FAIL {}: got {} want {}", name, hex(got), hex(want));
        }
    }
}

/// Returns (vectors reproduced, vectors failed).
pub fn run(repo_root: &str) -> (usize, usize) {
    let repo = || repo_root.to_string();
    let mut t = T { pass: 0, fail: 0 };
    // ---- ChaCha: RFC 7539 2.3.2 (block function), 2.4.2 (encryption) ----
    let mut key = [0u8; 32];
    for i in 0..32 {
        key[i] = i as u8;
    }
    let n = unhex("000000090000004a00000000");
    let s = chacha::Stream::new(chacha::Layout::Ietf, 10, &key, &n);
    t.eq(
        "rfc7539-2.3.2",
        &s.block(1),
        &unhex("10f1e7e4d13b5915500fdd1fa32071c4c7d1f4c733c068030422aa9ac3d46c4ed2826446079faa0914c2d705d98b02a2b5129cd1de164eb9cbd083e8a2503c4e"),
    );
    let n = unhex("000000000000004a00000000");
    let s = chacha::Stream::new(chacha::Layout::Ietf, 10, &key, &n);
    let pt = b"Ladies and Gentlemen of the class of '99: If I could offer you only one tip for the future, sunscreen would be it.";
    let ks = s.bytes(64, pt.len());
    let ct: Vec<u8> = pt.iter().zip(ks.iter()).map(|(a, b)| a ^ b).collect();
    t.eq("rfc7539-2.4.2", &ct, &unhex("6e2e359a2568f98041ba0728dd0d6981e97e7aec1d4360c20a27afccfd9fae0bf91b65c5524733ab8f593dabcd62b3571639d624e65152ab8f530c359f0861d807ca0dbf500d6a6156a38e088a22b65e52bc514d16ccf806818ce91ab77937365af90bbf74a35be6b40b8eedf2785e42874d"));
    // HChaCha20 (draft-irtf-cfrg-xchacha 2.2.1)
    let mut n16 = [0u8; 16];
    n16.copy_from_slice(&unhex("000000090000004a0000000031415927"));
    t.eq(
        "hchacha20-draft",
        &chacha::hchacha(&key, &n16, 10),
        &unhex("82413b4227b27bfed30e42508a877d73a0f9e4d58a74a853c12ec41326d3ecdc"),
    );
    // vectors shipped in the repository's unit tests (third-party origin)
    let k = unhex("82f411a074f656c66e7dbddb0a2c1b22760b9b2105f4ffdbb1d4b1e824e21def");
    let mut kk = [0u8; 32];
    kk.copy_from_slice(&k);
    let s = chacha::Stream::new(chacha::Layout::X, 10, &kk, &unhex("3b07ca6e729eb44a510b7a1be51847838a804f8b106b38bd"));
    t.eq("xchacha20_case_1", &s.bytes(0, 100), &unhex("201863970b8e081f4122addfdf32f6c03e48d9bc4e34a59654f49248b9be59d3eaa106ac3376e7e7d9d1251f2cbf61ef27000f3d19afb76b9c247151e7bc26467583f520518eccd2055ccd6cc8a195953d82a10c2065916778db35da2be44415d2f5efb0"));
    kk.copy_from_slice(&unhex("27fc120b013b829f1faeefd1ab417e8662f43e0d73f98de866e346353180fdb7"));
    let s = chacha::Stream::new(chacha::Layout::Djb, 6, &kk, &unhex("db4b4a41d8df18aa"));
    t.eq("chacha12_case_1", &s.bytes(0, 100), &unhex("5f3c8c190a78ab7fe808cae9cbcb0a9837c893492d963a1c2eda6c1558b02c83fc02a44cbbb7e6204d51d1c2430e9c0b58f2937bf593840c850bda9051a1f051ddf09d2a03ebf09f01bdba9da0b6da791b2e645641047d11ebf85087d4de5c015fddd044"));
    kk.copy_from_slice(&unhex("641aeaeb08036b617a42cf14e8c5d2d115f8d7cb6ea5e28b9bfaf83e038426a7"));
    let s = chacha::Stream::new(chacha::Layout::Djb, 4, &kk, &unhex("a14a1168271d459b"));
    t.eq("chacha8_case_1", &s.bytes(0, 100), &unhex("1721c044a8a6453522dddb3143d0be3512633ca3c79bf8ccc3594cb2c2f310f7bd544f55ce0db38123412d6c45207d5cf9af0c6c680cce1f7e43388d1b0346b7133c59fd6af4a5a568aa334ccdc38af5ace201df84d0a3ca225494ca6209345fcf30132e"));
    kk.copy_from_slice(&unhex("fa44478c59ca70538e3549096ce8b523232c50d9e8e8d10c203ef6c8d07098a5"));
    let s = chacha::Stream::new(chacha::Layout::Djb, 10, &kk, &unhex("8d3a0d6d7827c007"));
    t.eq("chacha20_case_1", &s.bytes(0x3fffffff70, 256), &unhex("1546a547ff77c5c964e44fd039e913c6395c8f19d43efaa880750f6687b4e6e2d8f42f63546da2d133b5aa2f1ef3f218b6c72943089e4012210c2cbed0e8e93498a6825fc8ff7a504f26db33b6cbe36299436244c9b2eff88302c55933911b7d5dea75f2b6d4761ba44bb6f814c9879d2ba2ac8b178fa1104a368694872339738ffb960e33db39efb8eaef885b910eea078e7a1feb3f8185dafd1455b704d76da3a0ce4760741841217bba1e4ece760eaf68617133431feb806c061173af6b8b2a23be90c5d145cc258e3c119aab2800f0c7bc1959dae75481712cab731b7dfd783fa3a228f9968aaea68f36a92f43c9b523337a55b97bcaf5f5774447bf41e8"));

    // ---- BLAKE: shipped KATs (incl. the 384/512 files the repository's own tests skip) ----
    for bits in [224usize, 256, 384, 512] {
        let v = blb::read_pairs(&format!("{}/hashes/blake/tests/data/blake{}.blb", repo(), bits));
        for (i, (m, d)) in v.iter().enumerate() {
            t.eq(&format!("blake{}[{}]", bits, i), &blake::blake(bits, m), d);
        }
    }
    // well-known BLAKE-256/512 of the empty string and of one zero byte (submission document)
    t.eq("blake256(00)", &blake::blake(256, &[0]), &unhex("0ce8d4ef4dd7cd8d62dfded9d4edb0a774ae6a41929a74da23109e8f11139c87"));
    t.eq("blake512(00)", &blake::blake(512, &[0]), &unhex("97961587f6d970faba6d2478045de6d1fabd09b61ae50932054d52bc29d31be4ff9102b9f69e2bbdb83be13d4b9c06091e5fa0b48bd081b634058be0ec49beb3"));
    t.eq("blake512('')", &blake::blake(512, &[])[..8], &unhex("a8cfbbd73726062d"));
    assert_eq!(blake_consts::U32[0], 0x243f6a88);
    assert_eq!(blake_consts::U64[15], 0x636920d871574e69);
    assert_eq!(blake_consts::IV256[0], 0x6a09e667);
    assert_eq!(blake_consts::IV224[0], 0xc1059ed8);

    // ---- Threefish: Skein submission vectors ----
    let z = |n: usize| vec![0u8; n];
    t.eq("tf256-zero", &threefish::encrypt(&z(32), [0, 0], &z(32)), &unhex("84da2a1f8beaee947066ae3e3103f1ad536db1f4a1192495116b9f3ce6133fd8"));
    t.eq("tf512-zero", &threefish::encrypt(&z(64), [0, 0], &z(64)), &unhex("b1a2bbc6ef6025bc40eb3822161f36e375d1bb0aee3186fbd19e47c5d479947b7bc2f8586e35f0cff7e7f03084b0b7b1f1ab3961a580a3e97eb41ea14a6d7bbe"));
    t.eq("tf1024-zero", &threefish::encrypt(&z(128), [0, 0], &z(128)), &unhex("f05c3d0a3d05b304f785ddc7d1e036015c8aa76e2f217b06c6e1544c0bc1a90df0accb9473c24e0fd54fea68057f43329cb454761d6df5cf7b2e9b3614fbd5a20b2e4760b40603540d82eabc5482c171c832afbe68406bc39500367a592943fa9a5b4a43286ca3c4cf46104b443143d560a4b230488311df4feef7e1dfe8391e"));
    let tw = [0x0706050403020100u64, 0x0f0e0d0c0b0a0908];
    let seq = |n: usize, start: u8| (0..n).map(|i| start.wrapping_add(i as u8)).collect::<Vec<u8>>();
    let dsc = |n: usize| (0..n).map(|i| 0xffu8.wrapping_sub(i as u8)).collect::<Vec<u8>>();
    let e256 = unhex("e0d091ff0eea8fdfc98192e62ed80ad59d865d08588df476657056b5955e97df");
    let e512 = unhex("e304439626d45a2cb401cad8d636249a6338330eb06d45dd8b36b90e97254779272a0a8d99463504784420ea18c9a725af11dffea10162348927673d5c1caf3d");
    let e1024 = unhex("a6654ddbd73cc3b05dd777105aa849bce49372eaaffc5568d254771bab85531c94f780e7ffaae430d5d8af8c70eebbe1760f3b42b737a89cb363490d670314bd8aa41ee63c2e1f45fbd477922f8360b388d6125ea6c7af0ad7056d01796e90c83313f4150a5716b30ed5f569288ae974ce2b4347926fce57de44512177dd7cde");
    for (n, e) in [(32usize, &e256), (64, &e512), (128, &e1024)] {
        t.eq(&format!("tf{}-seq", n * 8), &threefish::encrypt(&seq(n, 0x10), tw, &dsc(n)), e);
        t.eq(&format!("tf{}-seq-dec", n * 8), &threefish::decrypt(&seq(n, 0x10), tw, e), &dsc(n));
    }
    // ---- Skein: shipped KATs ----
    for sb in [32usize, 64, 128] {
        for n in [32usize, 64] {
            let v = blb::read_pairs(&format!("{}/hashes/skein/tests/data/skein{}_{}.blb", repo(), sb * 8, n));
            for (i, (m, d)) in v.iter().enumerate() {
                t.eq(&format!("skein{}_{}[{}]", sb * 8, n, i), &skein::skein(sb, m, n), d);
            }
        }
    }
    // ---- JH: all 8 NIST KAT files ----
    let jt = jh::Tables::new();
    for bits in [224usize, 256, 384, 512] {
        for kind in ["ShortMsgKAT", "LongMsgKAT"] {
            let v = blb::read_pairs(&format!("{}/hashes/jh/tests/data/{}_{}.blb", repo(), kind, bits));
            for (i, (m, d)) in v.iter().enumerate() {
                t.eq(&format!("jh{} {}[{}]", bits, kind, i), &jh::jh(&jt, bits, m), d);
            }
        }
    }
    // ---- Groestl: shipped vectors ----
    let gt = groestl::Tables::new();
    for bits in [224usize, 256, 384, 512] {
        let v = blb::read_pairs(&format!("{}/hashes/groestl/tests/data/groestl{}.blb", repo(), bits));
        for (i, (m, d)) in v.iter().enumerate() {
            t.eq(&format!("groestl{}[{}]", bits, i), &groestl::groestl(&gt, bits, m), d);
        }
    }
    (t.pass, t.fail)
}
