//! Reader for the "blobby" KAT files shipped in the repository (format 'blobby' + ascii digit n,
//! then records: n-byte little-endian length followed by that many bytes; records alternate
//! message, digest).
pub fn read_pairs(path: &str) -> Vec<(Vec<u8>, Vec<u8>)> {
    let d = std::fs::read(path).unwrap_or_else(|e| panic!("{}: {}", path, e));
    assert_eq!(&d[..6], b"blobby");
    let n = (d[6] - b'0') as usize;
    let d = &d[7..];
    let mut out = Vec::new();
    let mut i = 0;
    while i < d.len() {
        let mut l = 0usize;
        for k in 0..n {
            l |= (d[i + k] as usize) << (8 * k);
        }
        i += n;
        out.push(d[i..i + l].to_vec());
        i += l;
    }
    assert!(out.len() % 2 == 0);
    out.chunks(2).map(|c| (c[0].clone(), c[1].clone())).collect()
}
