//! ChaCha block function (RFC 7539 section 2.1-2.3 generalised to a round count and to raw
//! words 12..15) and HChaCha (XChaCha draft section 2.2).
pub const SIGMA: [u32; 4] = [0x6170_7865, 0x3320_646e, 0x7962_2d32, 0x6b20_6574];

fn qr(s: &mut [u32; 16], a: usize, b: usize, c: usize, d: usize) {
    s[a] = s[a].wrapping_add(s[b]);
    s[d] ^= s[a];
    s[d] = s[d].rotate_left(16);
    s[c] = s[c].wrapping_add(s[d]);
    s[b] ^= s[c];
    s[b] = s[b].rotate_left(12);
    s[a] = s[a].wrapping_add(s[b]);
    s[d] ^= s[a];
    s[d] = s[d].rotate_left(8);
    s[c] = s[c].wrapping_add(s[d]);
    s[b] ^= s[c];
    s[b] = s[b].rotate_left(7);
}

fn rounds(s: &mut [u32; 16], double_rounds: u32) {
    for _ in 0..double_rounds {
        qr(s, 0, 4, 8, 12);
        qr(s, 1, 5, 9, 13);
        qr(s, 2, 6, 10, 14);
        qr(s, 3, 7, 11, 15);
        qr(s, 0, 5, 10, 15);
        qr(s, 1, 6, 11, 12);
        qr(s, 2, 7, 8, 13);
        qr(s, 3, 4, 9, 14);
    }
}

pub fn key_words(key: &[u8; 32]) -> [u32; 8] {
    let mut k = [0u32; 8];
    for i in 0..8 {
        k[i] = u32::from_le_bytes([key[4 * i], key[4 * i + 1], key[4 * i + 2], key[4 * i + 3]]);
    }
    k
}

/// The block function on a full 16-word input state: `out = serialize(rounds(s) + s)`.
pub fn block_words(kw: &[u32; 8], d: [u32; 4], double_rounds: u32) -> [u8; 64] {
    let mut s = [0u32; 16];
    s[..4].copy_from_slice(&SIGMA);
    s[4..12].copy_from_slice(kw);
    s[12..].copy_from_slice(&d);
    let init = s;
    rounds(&mut s, double_rounds);
    let mut out = [0u8; 64];
    for i in 0..16 {
        out[4 * i..4 * i + 4].copy_from_slice(&s[i].wrapping_add(init[i]).to_le_bytes());
    }
    out
}

pub fn block(key: &[u8; 32], d: [u32; 4], double_rounds: u32) -> [u8; 64] {
    block_words(&key_words(key), d, double_rounds)
}

/// HChaCha: words 0..3 and 12..15 of the permuted state, *without* the feed-forward addition.
pub fn hchacha(key: &[u8; 32], n16: &[u8; 16], double_rounds: u32) -> [u8; 32] {
    let mut s = [0u32; 16];
    s[..4].copy_from_slice(&SIGMA);
    s[4..12].copy_from_slice(&key_words(key));
    for i in 0..4 {
        s[12 + i] = u32::from_le_bytes([n16[4 * i], n16[4 * i + 1], n16[4 * i + 2], n16[4 * i + 3]]);
    }
    rounds(&mut s, double_rounds);
    let mut out = [0u8; 32];
    for i in 0..4 {
        out[4 * i..4 * i + 4].copy_from_slice(&s[i].to_le_bytes());
        out[16 + 4 * i..16 + 4 * i + 4].copy_from_slice(&s[12 + i].to_le_bytes());
    }
    out
}

/// The three nonce layouts of the crate under test.
#[derive(Clone, Copy, Debug, PartialEq, Eq, Hash)]
pub enum Layout {
    /// 64-bit counter (words 12,13) + 64-bit nonce (words 14,15): original ChaCha
    Djb,
    /// 32-bit counter (word 12) + 96-bit nonce (words 13..15): RFC 7539
    Ietf,
    /// HChaCha subkey from nonce[0..16], then Djb layout with nonce[16..24]
    X,
}

/// A keystream described as a pure function of (key, nonce, layout, rounds, block index).
#[derive(Clone, Debug)]
pub struct Stream {
    pub layout: Layout,
    pub double_rounds: u32,
    kw: [u32; 8],
    n: [u32; 3],
}

fn le32(b: &[u8]) -> u32 {
    u32::from_le_bytes([b[0], b[1], b[2], b[3]])
}

impl Stream {
    pub fn new(layout: Layout, double_rounds: u32, key: &[u8; 32], nonce: &[u8]) -> Stream {
        match layout {
            Layout::Djb => {
                assert_eq!(nonce.len(), 8);
                Stream { layout, double_rounds, kw: key_words(key), n: [0, le32(&nonce[0..4]), le32(&nonce[4..8])] }
            }
            Layout::Ietf => {
                assert_eq!(nonce.len(), 12);
                Stream {
                    layout,
                    double_rounds,
                    kw: key_words(key),
                    n: [le32(&nonce[0..4]), le32(&nonce[4..8]), le32(&nonce[8..12])],
                }
            }
            Layout::X => {
                assert_eq!(nonce.len(), 24);
                let mut n16 = [0u8; 16];
                n16.copy_from_slice(&nonce[..16]);
                let sub = hchacha(key, &n16, double_rounds);
                Stream { layout, double_rounds, kw: key_words(&sub), n: [0, le32(&nonce[16..20]), le32(&nonce[20..24])] }
            }
        }
    }
    /// Number of keystream bytes the variant offers.
    pub fn limit(&self) -> u128 {
        match self.layout {
            Layout::Ietf => 1u128 << 38,
            _ => 1u128 << 70,
        }
    }
    pub fn block(&self, index: u64) -> [u8; 64] {
        let d = match self.layout {
            Layout::Ietf => {
                assert!(index < (1 << 32));
                [index as u32, self.n[0], self.n[1], self.n[2]]
            }
            _ => [index as u32, (index >> 32) as u32, self.n[1], self.n[2]],
        };
        block_words(&self.kw, d, self.double_rounds)
    }
    /// keystream bytes [pos, pos+len); positions are byte offsets < 2^70
    pub fn bytes(&self, pos: u128, len: usize) -> Vec<u8> {
        let mut out = Vec::with_capacity(len);
        let mut p = pos;
        let end = pos + len as u128;
        while p < end {
            let b = self.block((p / 64) as u64);
            let o = (p % 64) as usize;
            let n = std::cmp::min(64 - o, (end - p) as usize);
            out.extend_from_slice(&b[o..o + n]);
            p += n as u128;
        }
        out
    }
}
