//! vtsan: the thread bodies of C18's free-running supplement, without any oracle: the oracle is
//! ThreadSanitizer's report. Every program creates its own instances; `copies` threads per program
//! are released together by a barrier and repeat their program, so first-use initialisation of every
//! lazily initialised global overlaps between threads. Run in a fresh process several times.
use cipher::generic_array::GenericArray;
use cipher::{NewCipher, StreamCipher, StreamCipherSeek};
use digest::generic_array::typenum::{U128, U16, U32, U64};
use digest::Digest;
use std::sync::{Arc, Barrier};

fn msg(seed: u8) -> Vec<u8> {
    (0..(150 + 37 * seed as usize % 200)).map(|i| (i as u8).wrapping_mul(seed | 1) ^ seed.rotate_left(3)).collect()
}

fn hash<D: Digest>(seed: u8) -> u8 {
    let m = msg(seed);
    let mut d = D::new();
    d.update(&m[..m.len() / 3]);
    d.update(&m[m.len() / 3..]);
    let o = d.finalize();
    o[0] ^ o[o.len() - 1]
}
fn cipher<C: NewCipher + StreamCipher + StreamCipherSeek>(seed: u8) -> u8 {
    let key: Vec<u8> = (0..32).map(|j| (0x31 + 7 * j + 13 * seed as usize) as u8).collect();
    let n = <C as NewCipher>::NonceSize::to_usize();
    let nonce: Vec<u8> = (0..n).map(|j| (0xa5 + 11 * j + 29 * seed as usize) as u8).collect();
    let mut c = C::new(GenericArray::from_slice(&key), GenericArray::from_slice(&nonce));
    let mut b = vec![0u8; 400];
    c.apply_keystream(&mut b[..100]);
    c.apply_keystream(&mut b[100..]);
    c.seek(33u64);
    c.apply_keystream(&mut b[..70]);
    b[0] ^ b[399]
}
use digest::generic_array::typenum::Unsigned;

fn main() {
    let args: Vec<String> = std::env::args().collect();
    let copies: usize = args.get(1).and_then(|s| s.parse().ok()).unwrap_or(3);
    let repeat: usize = args.get(2).and_then(|s| s.parse().ok()).unwrap_or(20);
    let progs: Vec<(&'static str, fn(u8) -> u8)> = vec![
        ("Groestl224", hash::<groestl_aesni::Groestl224>),
        ("Groestl256", hash::<groestl_aesni::Groestl256>),
        ("Groestl384", hash::<groestl_aesni::Groestl384>),
        ("Groestl512", hash::<groestl_aesni::Groestl512>),
        ("Blake224", hash::<blake_hash::Blake224>),
        ("Blake256", hash::<blake_hash::Blake256>),
        ("Blake384", hash::<blake_hash::Blake384>),
        ("Blake512", hash::<blake_hash::Blake512>),
        ("Jh224", hash::<jh_x86_64::Jh224>),
        ("Jh256", hash::<jh_x86_64::Jh256>),
        ("Jh384", hash::<jh_x86_64::Jh384>),
        ("Jh512", hash::<jh_x86_64::Jh512>),
        ("Skein256<U16>", hash::<skein_hash::Skein256<U16>>),
        ("Skein256<U32>", hash::<skein_hash::Skein256<U32>>),
        ("Skein512<U16>", hash::<skein_hash::Skein512<U16>>),
        ("Skein512<U32>", hash::<skein_hash::Skein512<U32>>),
        ("Skein512<U64>", hash::<skein_hash::Skein512<U64>>),
        ("Skein1024<U16>", hash::<skein_hash::Skein1024<U16>>),
        ("Skein1024<U128>", hash::<skein_hash::Skein1024<U128>>),
        ("ChaCha8", cipher::<c2_chacha::ChaCha8>),
        ("ChaCha12", cipher::<c2_chacha::ChaCha12>),
        ("ChaCha20", cipher::<c2_chacha::ChaCha20>),
        ("Ietf", cipher::<c2_chacha::Ietf>),
        ("XChaCha8", cipher::<c2_chacha::XChaCha8>),
        ("XChaCha12", cipher::<c2_chacha::XChaCha12>),
        ("XChaCha20", cipher::<c2_chacha::XChaCha20>),
    ];
    let total = progs.len() * copies;
    let barrier = Arc::new(Barrier::new(total));
    let mut hs = Vec::new();
    for c in 0..copies {
        for (i, (_, f)) in progs.iter().enumerate() {
            let b = barrier.clone();
            let f = *f;
            hs.push(std::thread::spawn(move || {
                b.wait();
                let mut acc = 0u8;
                for r in 0..repeat {
                    // same seed in every copy: identical keys / nonces / messages across threads
                    acc ^= f((i as u8).wrapping_add(if r % 2 == 0 { 0 } else { c as u8 }));
                }
                acc
            }));
        }
    }
    let mut acc = 0u8;
    for h in hs {
        acc ^= h.join().unwrap();
    }
    println!("vtsan: {} threads x {} repetitions done ({})", total, repeat, acc);
}
