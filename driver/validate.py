#!/usr/bin/env python3
"""Validates MANIFEST.json and every evidence file against the schemas (python3-vt has jsonschema)."""
import json, sys, glob, os
import jsonschema
V = os.path.dirname(os.path.dirname(os.path.abspath(__file__)))
jsonschema.validate(json.load(open(V + "/MANIFEST.json")), json.load(open("/root/.vp/MANIFEST.schema.json")))
es = json.load(open("/root/.vp/EVIDENCE.schema.json"))
n = 0
for f in sorted(glob.glob(V + "/evidence/*.json")):
    jsonschema.validate(json.load(open(f)), es)
    n += 1
print("MANIFEST.json valid; %d evidence files valid" % n)
