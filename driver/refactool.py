#!/usr/bin/env python3
"""False-alarm test: applies a behaviour-preserving change to /repo, runs the named quick checks (all must
exit 0 and print no VIOLATION line), restores /repo and records the outcome in /verif/equivalent/<id>/.

  refactool.py <id> --patch P --props C01,C02,... [--notes FILE]
The 39-test baseline is first confirmed on a scratch worktree with the change applied.
"""
import argparse, json, os, shutil, subprocess, sys, time

VERIF = os.path.dirname(os.path.dirname(os.path.abspath(__file__)))
REPO = "/repo"

def sh(cmd, cwd=None, timeout=3600):
    p = subprocess.run(cmd, shell=True, cwd=cwd, stdout=subprocess.PIPE, stderr=subprocess.STDOUT, text=True, timeout=timeout)
    return p.returncode, p.stdout

def main():
    ap = argparse.ArgumentParser()
    ap.add_argument("id")
    ap.add_argument("--patch", required=True)
    ap.add_argument("--props", required=True)
    ap.add_argument("--notes")
    a = ap.parse_args()
    meta = dict(id=a.id, kind="behaviour-preserving change (false-alarm test)", ran=[])
    wt = "/tmp/confirm-shared"
    if os.path.isdir(wt):
        sh("git checkout -- . && git clean -fdq -e target", cwd=wt)
    else:
        rc, out = sh("git -C %s worktree add -q %s HEAD" % (REPO, wt))
        assert rc == 0, out
    rc, out = sh("git apply %s" % os.path.abspath(a.patch), cwd=wt)
    assert rc == 0, "patch does not apply: " + out
    rc, out = sh("cargo test --workspace --no-fail-fast --offline 2>&1", cwd=wt)
    p = f = 0
    for l in out.splitlines():
        if l.startswith("test result:"):
            w = l.split(); p += int(w[3]); f += int(w[5])
    meta["baseline_with_change"] = dict(passed=p, failed=f, exit=rc)
    print("baseline with change: passed=%d failed=%d exit=%d" % (p, f, rc))
    sh("git checkout -- . && git clean -fdq -e target", cwd=wt)
    rc, out = sh("git -C %s status --porcelain" % REPO)
    assert out.strip() == "", "/repo is not clean: " + out
    rc, out = sh("git -C %s apply %s" % (REPO, os.path.abspath(a.patch)))
    assert rc == 0, out
    res = {}
    try:
        for pid in a.props.split(","):
            t0 = time.time()
            rc, out = sh("timeout 1200 ./check %s --tier quick 2>&1" % pid, cwd=VERIF)
            viol = [l for l in out.splitlines() if l.startswith("VIOLATION")]
            notes = [l.strip() for l in out.splitlines() if "WITHOUT" in l or "not accessible" in l or "MACHINERY" in l]
            sigs = [l.strip()[:300] for l in out.splitlines() if l.startswith("  ") and ":" in l and "VIOL" not in l][:4]
            res[pid] = dict(exit=rc, violation_lines=len(viol), degraded=notes[:3], first_signatures=sigs if rc else [], wall_s=round(time.time() - t0, 1))
            print("check %s: exit=%d violations=%d %.0fs %s %s" % (pid, rc, len(viol), time.time() - t0, notes[:1], sigs[:1] if rc else ""))
    finally:
        sh("git -C %s checkout -- ." % REPO)
        rc, out = sh("git -C %s status --porcelain" % REPO)
        assert out.strip() == "", "/repo not restored: " + out
    meta["checks"] = res
    meta["alarms"] = [p for p, d in res.items() if d["exit"] != 0]
    dest = os.path.join(VERIF, "equivalent", a.id)
    os.makedirs(dest, exist_ok=True)
    shutil.copy(a.patch, os.path.join(dest, "patch.diff"))
    if a.notes and os.path.exists(a.notes):
        shutil.copy(a.notes, os.path.join(dest, "notes.md"))
    json.dump(meta, open(os.path.join(dest, "meta.json"), "w"), indent=1)
    print("alarms:", meta["alarms"])

if __name__ == "__main__":
    main()
