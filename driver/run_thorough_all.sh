#!/bin/bash
# runs every thorough tier once, one line per property: id, exit code, seconds
cd "$(dirname "$0")/.."
./check setup || exit 2
for p in C01 C03 C04 C05 C06 C07 C09 C10 C12 C13 C14 C15 C16 C19 C08 C17 C18 C20 C11 C02; do
  t0=$(date +%s)
  ./check $p --tier thorough > /tmp/thorough-$p.log 2>&1
  rc=$?
  echo "$p exit=$rc $(( $(date +%s) - t0 ))s $(tail -1 /tmp/thorough-$p.log | cut -c1-160)"
done
