"""Build configurations -> engines -> known findings -> evidence. See ../check."""
import hashlib
import re
import json
import os
import shutil
import subprocess
import sys
import time

VERIF = os.path.dirname(os.path.dirname(os.path.abspath(__file__)))
REPO = os.environ.get("VERIF_REPO", "/repo")
BUILD = os.path.join(VERIF, ".build")
HARNESS = os.path.join(VERIF, "harness")
RESULTS = os.path.join(BUILD, "results")
GUARD = "--cfg cryptocorrosion_verif"


class Machinery(Exception):
    """harness does not build / self-test fails / engine crashed: exit 2, never a verdict"""


def log(*a):
    print(*a, file=sys.stderr, flush=True)


# ------------------------------------------------------------------------------------------------
# build configurations (DESIGN.md section 5)
#   target: directory under .build ; profile: cargo profile ; features: vh features
CONFIGS = {
    "rel": dict(target="rel", profile="release", features=[], rustflags=""),
    "ovf": dict(target="rel", profile="ovf", features=[], rustflags=""),
    "dev": dict(target="rel", profile="dev", features=[], rustflags=""),
    "nosimd": dict(target="nosimd", profile="release", features=["nosimd"], rustflags=""),
    "nosimd-ovf": dict(target="nosimd", profile="ovf", features=["nosimd"], rustflags=""),
    "nounroll": dict(target="nounroll", profile="release", features=["nounroll"], rustflags=""),
}


HOOKS_OFF = False  # set when the hook code itself no longer compiles against /repo's working tree


def cargo_env(extra_rustflags=""):
    env = dict(os.environ)
    env["CARGO_NET_OFFLINE"] = "true"
    env["RUSTFLAGS"] = ("-Awarnings " + ("" if HOOKS_OFF else GUARD) + " " + extra_rustflags).strip()
    env.pop("CARGO_TARGET_DIR", None)
    return env


def profile_dir(profile):
    return {"release": "release", "dev": "debug"}.get(profile, profile)


_built = set()
NO_INTERNALS = set()


OPTIONAL = ["internals", "simd_extras"]  # default features of vh that depend on non-API details of /repo
# tried in this order: everything, then without one, then without both
OPTIONAL_SETS = [("internals", "simd_extras"), ("internals",), ("simd_extras",), ()]
NO_EXTRAS = set()


def _cargo_build(config, package, optional):
    c = CONFIGS[config]
    tdir = os.path.join(BUILD, c["target"] + ("-nohooks" if HOOKS_OFF else ""))
    binp = os.path.join(tdir, profile_dir(c["profile"]), package)
    cmd = ["cargo", "build", "--offline", "-q", "-p", package, "--target-dir", tdir]
    if c["profile"] == "release":
        cmd.append("--release")
    elif c["profile"] != "dev":
        cmd += ["--profile", c["profile"]]
    feats = list(c["features"])
    if package == "vh" and tuple(optional) != OPTIONAL_SETS[0]:
        cmd.append("--no-default-features")
        feats += list(optional)
    if feats:
        cmd += ["--features", ",".join(feats)]
    p = subprocess.run(cmd, cwd=HARNESS, env=cargo_env(c["rustflags"]), stdout=subprocess.PIPE, stderr=subprocess.STDOUT, text=True)
    return p.returncode == 0, binp, p.stdout


_binpath = {}


def _note_degraded(config, optional, hooks_off):
    what = []
    if "internals" not in optional:
        NO_INTERNALS.add(config)
        what.append("cipher internals (public state fields of the ChaCha ciphers changed)")
    if "simd_extras" not in optional:
        NO_EXTRAS.add(config)
        what.append("the non-trait extras of the x86 SIMD types (conversions / == / Default no longer there)")
    if hooks_off:
        what.append("the verification hooks (the guarded hook code no longer compiles): H1/H2 unavailable")
    if what:
        log("[build] %s builds only WITHOUT %s" % (config, " and WITHOUT ".join(what)))


def build(config, package="vh"):
    """(Re)build one configuration from /repo's current working tree; returns the binary path.

    Degrades instead of failing when a change to the repository breaks only what the harness hooks into:
    1. without the harness features `internals` (public state fields of the ChaCha ciphers changed) and/or
       `simd_extras` (impls of the x86 vector types outside the Machine trait vocabulary removed);
    2. without the hooks (`--cfg cryptocorrosion_verif` off everywhere: the guarded hook code in /repo no
       longer compiles) - forced back ends (H1) and counter fast-forwarding (H2) are then unavailable.
    """
    global HOOKS_OFF
    key = (config, package)
    if key in _built:
        return _binpath[key]
    t0 = time.time()
    ok, binp, out = _cargo_build(config, package, OPTIONAL_SETS[0])
    if not ok and package == "vh":
        for hooks_off in ([HOOKS_OFF] if HOOKS_OFF else [False, True]):
            prev = HOOKS_OFF
            HOOKS_OFF = hooks_off
            for optional in (OPTIONAL_SETS if hooks_off and not prev else OPTIONAL_SETS[1:]):
                ok2, binp2, _ = _cargo_build(config, package, optional)
                if ok2:
                    _note_degraded(config, optional, hooks_off and not prev)
                    ok, binp = True, binp2
                    break
            if ok:
                break
            HOOKS_OFF = prev
    if not ok:
        raise Machinery("build of configuration %s failed:\n%s" % (config, out[-4000:]))
    log("[build] %s (%s) %.1fs%s" % (config, package, time.time() - t0, " [hooks off]" if HOOKS_OFF else ""))
    _built.add(key)
    _binpath[key] = binp
    return binp


def assert_wiring():
    """every crate under test must resolve to the working tree, not to the registry"""
    p = subprocess.run(["cargo", "metadata", "--offline", "--format-version", "1"], cwd=HARNESS, env=cargo_env(), stdout=subprocess.PIPE, stderr=subprocess.PIPE, text=True)
    if p.returncode != 0:
        raise Machinery("cargo metadata failed: " + p.stderr[-2000:])
    md = json.loads(p.stdout)
    under_test = {"ppv-lite86", "threefish-cipher", "c2-chacha", "blake-hash", "groestl-aesni", "jh-x86_64", "skein-hash", "ppv-null"}
    for pk in md["packages"]:
        if pk["name"] in under_test and not pk["manifest_path"].startswith(REPO + "/"):
            raise Machinery("%s resolves to %s, not to the working tree" % (pk["name"], pk["manifest_path"]))


def run_engine(config, args, name, timeout=None, env_extra=None):
    """run `vh <args> --out <file>`; returns the parsed result"""
    binp = build(config)
    os.makedirs(RESULTS, exist_ok=True)
    out = os.path.join(RESULTS, name + ".json")
    if os.path.exists(out):
        os.remove(out)
    env = dict(os.environ)
    if env_extra:
        env.update(env_extra)
    t0 = time.time()
    p = subprocess.run([binp] + args + ["--config", config, "--out", out], cwd=VERIF, env=env, stdout=subprocess.PIPE, stderr=subprocess.PIPE, text=True, timeout=timeout)
    if p.stderr.strip():
        for line in p.stderr.strip().splitlines()[:40]:
            log("    " + line[:300])
    if p.returncode != 0 or not os.path.exists(out):
        raise Machinery("engine %s %s exited %s without a result:\n%s" % (config, " ".join(args), p.returncode, p.stderr[-3000:]))
    r = json.load(open(out))
    r["_engine_wall_s"] = time.time() - t0
    return r


_selftest_done = False


def selftest():
    global _selftest_done
    if _selftest_done:
        return
    binp = build("rel")
    p = subprocess.run([binp, "selftest"], cwd=VERIF, stdout=subprocess.PIPE, stderr=subprocess.STDOUT, text=True, env=dict(os.environ, VERIF_REPO=REPO))
    if p.returncode != 0:
        raise Machinery("reference-model self-test failed:\n" + p.stdout[-3000:])
    log("[selftest] " + p.stdout.strip().splitlines()[-1])
    _selftest_done = True


# ------------------------------------------------------------------------------------------------
# known findings (DESIGN.md section 8): committed, never written at run time
def load_known():
    known = {}
    path = os.path.join(VERIF, "KNOWN_FINDINGS.txt")
    if not os.path.exists(path):
        return known
    for line in open(path):
        line = line.strip()
        if not line.startswith("known:"):
            continue  # `fixed:` lines and comments suppress nothing
        body, _, what = line[len("known:"):].partition("--")
        fields = dict(f.split("=", 1) for f in body.split() if "=" in f)
        known[(fields["property"], fields["sig"])] = what.strip()
    return known


# ------------------------------------------------------------------------------------------------
def finish(pid, tier, level, results, t0, extra_cov=None, assumptions=None):
    """merge engine results, apply known findings, write replays + evidence, print verdict lines"""
    known = load_known()
    viol = {}
    for r in results:
        for v in r.get("violations", []):
            e = viol.setdefault(v["sig"], dict(v, configs=[]))
            e["configs"].append(r.get("config", "?"))
    cov = {}
    cov["evaluations"] = sum(r.get("evaluations", 0) for r in results)
    cov["distinct_nontrivial"] = max([r.get("distinct_nontrivial", 0) for r in results] + [0])
    rules = []
    for r in results:
        if r.get("rule") and r["rule"] not in rules:
            rules.append(r["rule"])
    cov["rule"] = " || ".join(rules)
    samples = []
    for r in results:
        for s in r.get("samples", []):
            if len(samples) < 8:
                samples.append(s)
    cov["samples"] = samples
    cov["exhaustive"] = all(r.get("exhaustive", False) for r in results) and len(results) > 0
    cov["configs"] = [
        dict(config=r.get("config"), evaluations=r.get("evaluations"), distinct_nontrivial=r.get("distinct_nontrivial"), wall_s=round(r.get("wall_s", 0), 2), extra=r.get("extra", {}))
        for r in results
    ]
    if level == "model_checking":
        cov["states"] = sum(r.get("extra", {}).get("states", 0) for r in results)
        cov["transitions"] = sum(r.get("extra", {}).get("transitions", 0) for r in results)
        cov["traces_validated_against_impl"] = sum(r.get("extra", {}).get("traces_validated_against_impl", 0) for r in results)
    if extra_cov:
        cov.update(extra_cov)
    assume = []
    for r in results:
        for a in r.get("assumptions", []):
            if a not in assume:
                assume.append(a)
    for a in assumptions or []:
        if a not in assume:
            assume.append(a)

    capped = [c for r in results for c in (r.get("extra", {}).get("capped") or [])]
    if capped:
        cov["capped"] = capped
        cov["exhaustive"] = False
    new, listed = [], []
    for sig, v in sorted(viol.items()):
        if (pid, sig) in known:
            listed.append((sig, known[(pid, sig)]))
        else:
            new.append(v)
    os.makedirs(os.path.join(VERIF, "replays"), exist_ok=True)
    lines = []
    for sig, what in listed:
        lines.append("KNOWN-FINDING: property=%s %s [sig=%s]" % (pid, what, sig))
    for v in new:
        h = hashlib.sha1(v["sig"].encode()).hexdigest()[:10]
        path = os.path.join(VERIF, "replays", "%s-%s.json" % (pid, h))
        json.dump(dict(property=pid, sig=v["sig"], detail=v["detail"], configs=v["configs"], replay=v["replay"]), open(path, "w"), indent=1)
        lines.append("VIOLATION property=%s replay=%s" % (pid, path))
        log("  %s: %s (configs %s, x%s)" % (v["sig"], v["detail"][:400], ",".join(v["configs"]), v.get("count", 1)))
    cov["known_findings_matched"] = [s for s, _ in listed]
    ev = dict(
        property_id=pid,
        tier=tier,
        seed=int(os.environ.get("VERIF_SEED", "0") or 0),
        level=level,
        coverage=cov,
        assumptions=assume,
        wall_s=round(time.time() - t0, 2),
        violations=len(new),
    )
    os.makedirs(os.path.join(VERIF, "evidence"), exist_ok=True)
    json.dump(ev, open(os.path.join(VERIF, "evidence", pid + ".json"), "w"), indent=1)
    for l in lines:
        print(l, flush=True)
    if capped and not new:
        raise Machinery("exploration stopped at a cap before the stated bound without finding a violation: %s" % capped)
    print("%s %s: %s; evaluations=%d states=%s violations=%d known=%d wall=%.1fs" % (pid, tier, "HELD" if not new else "VIOLATED", cov["evaluations"], cov.get("states", "-"), len(new), len(listed), time.time() - t0), flush=True)
    return 1 if new else 0


# ------------------------------------------------------------------------------------------------
# per-property plans
def secondary_build_failure(pid, config, err):
    """a secondary configuration (ovf / nosimd / nounroll) that stops compiling while the main one builds"""
    errs = [l for l in err.splitlines() if l.startswith("error")]
    return dict(sig="%s:%s:does-not-build" % (pid.lower(), config), detail="build configuration %s no longer compiles: %s" % (config, (errs[0] if errs else err[-300:])),
                replay=dict(config=config, features=CONFIGS[config]["features"]), count=1)


def simple(pid, level, sub, configs_quick, configs_thorough=None):
    def run(tier):
        t0 = time.time()
        selftest()
        cfgs = configs_quick if tier == "quick" else (configs_thorough or configs_quick)
        results = []
        for c in cfgs:
            try:
                build(c)
                if c in NO_INTERNALS and pid in ("C02", "C11"):
                    log("[%s] cipher state fields not accessible in this tree: only the live-object phase runs (stateless, depth-bounded)" % pid)
            except Machinery as e:
                if c == cfgs[0]:
                    raise
                # the main configuration builds, this one does not: the property quantifies over it
                results.append(dict(config=c, evaluations=0, distinct_nontrivial=0, exhaustive=False, rule="", samples=[],
                                    violations=[secondary_build_failure(pid, c, str(e))]))
                continue
            # the unoptimised `dev` build only confirms that ovf findings are real `cargo build` behaviour: small windows
            env_extra = {"VH_W": "3"} if c == "dev" else None
            if pid == "C08" and tier == "thorough" and c != cfgs[0]:
                env_extra = {"VH_DEPTH": "5"}  # depth 6 (2*10^8 histories) only in the main configuration
            results.append(run_engine(c, [sub, "--tier", tier], "%s-%s-%s" % (pid, tier, c), timeout=(900 if tier == "quick" else 6 * 3600), env_extra=env_extra))
        return finish(pid, tier, level, results, t0)
    return run



# ------------------------------------------------------------------------------------------------
# C03 / C20: the probe program built in every configuration of the lattice
STD = ["chacha_std", "blake_std", "jh_std", "ppv_std", "std"]  # `std` = vprobe's own (the dispatch macros test the expanding crate's feature)
PROBE_CONFIGS = {
    # name: (vprobe features, extra rustflags, forced backends to run)
    "probe-std": (STD, "", [0, 1, 2, 3, 4, 5]),
    "probe-ns-sse2": ([], "", [0]),
    "probe-ns-ssse3": ([], "-Ctarget-feature=+ssse3", [0]),
    "probe-ns-sse41": ([], "-Ctarget-feature=+ssse3,+sse4.1", [0]),
    "probe-ns-avx": ([], "-Ctarget-feature=+ssse3,+sse4.1,+avx", [0]),
    "probe-ns-avx2": ([], "-Ctarget-feature=+ssse3,+sse4.1,+avx,+avx2", [0]),
    "probe-nosimd-std": (STD + ["ppv_no_simd"], "", [0]),
    "probe-nosimd-nostd": (["ppv_no_simd"], "", [0]),
}
BACKEND_NAMES = ["cpuid", "sse2", "ssse3", "sse41", "avx", "avx2"]


def build_probe(name, features, rustflags, tdir=None):
    """returns (binary path or None, error text)"""
    tdir = (tdir or os.path.join(BUILD, name)) + ("-nohooks" if HOOKS_OFF else "")
    cmd = ["cargo", "build", "--offline", "-q", "--release", "-p", "vprobe", "--target-dir", tdir]
    if features:
        cmd += ["--features", ",".join(features)]
    p = subprocess.run(cmd, cwd=HARNESS, env=cargo_env(rustflags), stdout=subprocess.PIPE, stderr=subprocess.STDOUT, text=True)
    if p.returncode != 0:
        return None, p.stdout[-3000:]
    return os.path.join(tdir, "release", "vprobe"), ""


def run_probe(binp, force=0, long=False):
    args = [binp, "--force", str(force)] + (["--long"] if long else [])
    p = subprocess.run(args, stdout=subprocess.PIPE, stderr=subprocess.PIPE, text=True)
    if p.returncode != 0:
        return dict(crashed=True, code=p.returncode, stderr=p.stderr[-500:])
    return json.loads(p.stdout.strip().splitlines()[-1])


MACHINES = {  # fallback only: substrings of core::any::type_name of the Machine the dispatch macros hand out
    "sse2": "NoS3, ppv_lite86::x86_64::NoS4",
    "ssse3": "YesS3, ppv_lite86::x86_64::NoS4",
    "sse41": "YesS3, ppv_lite86::x86_64::YesS4",
    "avx": "YesS3, ppv_lite86::x86_64::YesS4",
    "avx2": "Avx2Machine",
    "generic": "GenericMachine",
}
X86_NAMES = {}  # type names of the x86 machines as the tree under test spells them (reported by the probe)


LEVEL = {"generic": 0, "sse2": 1, "ssse3": 2, "sse41": 3, "avx": 3, "avx2": 4}  # SSE4.1 and AVX machines are one type


def host_level():
    try:
        flags = open("/proc/cpuinfo").read().split("flags", 1)[1].split("\n", 1)[0].split()
    except Exception:
        return "avx2"
    for name, flag in (("avx2", "avx2"), ("avx", "avx"), ("sse41", "sse4_1"), ("ssse3", "ssse3")):
        if flag in flags:
            return name
    return "sse2"


def expected_machine(features, rustflags, forced):
    """the most capable back end this configuration is allowed to run"""
    if any(f in features for f in ("ppv_no_simd", "chacha_no_simd")):
        return "generic"
    if forced:
        return BACKEND_NAMES[forced]
    if "std" in features:
        return host_level()  # CPUID dispatch
    for name in ("avx2", "avx", "sse4.1", "ssse3"):
        if "+" + name in rustflags:
            return {"sse4.1": "sse41"}.get(name, name)
    return "sse2"


def _strip_ni(t):
    """the AES-NI marker parameter of the machine types is not part of the selection this oracle checks"""
    return re.sub(r"[A-Za-z0-9_:]*(YesNI|NoNI)", "NI", t)


def machine_level(got, names):
    """level of a reported Machine type name; None if it is none of the x86 machines"""
    best = None
    for k, v in names.items():
        if _strip_ni(v) == _strip_ni(got):
            best = max(best or 0, LEVEL[k])
    if best is None and not names:
        for k in ("avx2", "sse41", "ssse3", "sse2"):  # fallback: hard-coded substrings
            if MACHINES[k] in got:
                return LEVEL[k]
    return best


def machine_violation(prefix, point, r, features, rustflags, forced, viol):
    """Implementation-selection oracle: a configuration must not run a back end it does not permit.

    no_simd -> the portable machine and nothing else; otherwise every dispatch macro (dispatch!,
    dispatch_light128!, dispatch_light256!) must hand out an x86 machine whose level does not exceed what
    the point allows (forced arm / compile-time target features / this host's CPUID level). Handing out a
    LESS capable machine is slower, not wrong, and is not reported.
    """
    want = expected_machine(features, rustflags, forced)
    if r.get("machine_names"):
        X86_NAMES.update(r["machine_names"])
    names = r.get("machine_names") or X86_NAMES
    for macro, key in (("dispatch!", "machine"), ("dispatch_light128!", "machine_light128"), ("dispatch_light256!", "machine_light256")):
        got = r.get(key, "")
        if not got:
            continue
        lvl = machine_level(got, names)
        if want == "generic":
            wrong = lvl is not None if names else MACHINES["generic"] not in got
            why = "is meant to run the portable implementation"
        else:
            wrong = lvl is not None and lvl > LEVEL[want]
            why = "permits nothing beyond the %s back end" % want
        if wrong:
            viol.append(dict(sig="%s:%s:selects-wrong-implementation" % (prefix, point), detail="this configuration %s but %s hands out %s" % (why, macro, got), replay=dict(point=point, features=features, macro=macro), count=1))
            return


def probe_violations(prefix, point, r, ref_fp, viol):
    """turn one probe result into violations; returns fingerprint"""
    if r.get("crashed"):
        viol.append(dict(sig="%s:%s:crash" % (prefix, point), detail="probe died with exit code %s: %s" % (r["code"], r["stderr"]), replay=dict(point=point), count=1))
        return None
    algos = sorted(set(m.split(" ")[0] for m in r["mismatches"]))
    for a in algos:
        ex = [m for m in r["mismatches"] if m.startswith(a + " ")][:3]
        viol.append(dict(sig="%s:%s:%s:differs-from-model" % (prefix, point, a), detail="%d outputs differ from the reference model, e.g. %s" % (r["n_mismatches"], ex), replay=dict(point=point, examples=ex), count=r["n_mismatches"]))
    algos = sorted(set(m.split(" ")[0] for m in r["panics"]))
    for a in algos:
        ex = [m for m in r["panics"] if m.startswith(a + " ")][:3]
        viol.append(dict(sig="%s:%s:%s:panic" % (prefix, point, a), detail="%d calls panicked where other configurations return, e.g. %s" % (r["n_panics"], ex), replay=dict(point=point, examples=ex), count=r["n_panics"]))
    if ref_fp is not None and r["fingerprint"] != ref_fp and not r["mismatches"] and not r["panics"]:
        viol.append(dict(sig="%s:%s:fingerprint" % (prefix, point), detail="fingerprint %s differs from the reference configuration's %s" % (r["fingerprint"], ref_fp), replay=dict(point=point), count=1))
    return r["fingerprint"]


def plan_c03(tier):
    from concurrent.futures import ThreadPoolExecutor
    t0 = time.time()
    selftest()  # builds `rel` first: decides whether the hooks still compile
    names = list(PROBE_CONFIGS)
    with ThreadPoolExecutor(max_workers=4) as ex:
        built = list(ex.map(lambda n: build_probe(n, PROBE_CONFIGS[n][0], PROBE_CONFIGS[n][1]), names))
    log("[build] %d probe configurations %.1fs" % (len(names), time.time() - t0))
    viol, points, total, ref_fp, cases = [], [], 0, None, 0
    for n, (binp, err) in zip(names, built):
        if binp is None:
            viol.append(dict(sig="c03:%s:does-not-build" % n, detail="configuration %s does not build: %s" % (n, err[-600:]), replay=dict(point=n), count=1))
            points.append(dict(point=n, built=False))
            continue
        for f in PROBE_CONFIGS[n][2]:
            if f and HOOKS_OFF:
                points.append(dict(point="%s/forced-%s" % (n, BACKEND_NAMES[f]), skipped="hook H1 not available in this tree"))
                continue
            point = n if len(PROBE_CONFIGS[n][2]) == 1 else "%s/forced-%s" % (n, BACKEND_NAMES[f])
            r = run_probe(binp, f, long=(tier == "thorough"))
            fp = probe_violations("c03", point, r, ref_fp, viol)
            if not r.get("crashed"):
                machine_violation("c03", point, r, PROBE_CONFIGS[n][0], PROBE_CONFIGS[n][1], f, viol)
            if ref_fp is None and fp is not None:
                ref_fp = fp
            if not r.get("crashed"):
                total += r["cases"]
                cases = r["cases"]
                if f and r["taken"][f] == 0:
                    raise Machinery("hook H1: forced backend %d was never dispatched" % f)
            points.append(dict(point=point, machine=r.get("machine"), machine_light128=r.get("machine_light128"), machine_light256=r.get("machine_light256"), cases=r.get("cases"), fingerprint=r.get("fingerprint"), mismatches=r.get("n_mismatches"), panics=r.get("n_panics"), forced_dispatch_hits=(r.get("taken") or [None] * 6)[f] if f else None))
    res = dict(config="lattice", evaluations=total, distinct_nontrivial=cases, exhaustive=True, violations=viol, wall_s=time.time() - t0,
               rule="configuration lattice enumerated completely (13 points): std dispatch with CPUID and with each of SSE2/SSSE3/SSE4.1/AVX/AVX2 forced through hook H1; no_std compile-time dispatch built with -Ctarget-feature for each of the five arms; no_simd with and without std. In every point the same probe runs all 7 ChaCha types on {k0,k1} x {n0,n1} x position alphabet x length alphabet (buffered / wide / narrow segments, counter carry), BLAKE-224/256/384/512 and JH-224/256/384/512 on every length 0..=3B+2 (thorough 6B+2) and every one-hot one-block message; each output is compared with vref inside the probe, the 13 fingerprints must be equal, and the Machine type that each of the three dispatch macros (dispatch!, dispatch_light128!, dispatch_light256!) hands out in each point must be the portable one in the no_simd points and otherwise must not exceed the back end the point permits (forced arm, compile-time target features, this host's CPUID level). distinct_nontrivial = distinct (algorithm, input) cases per point.",
               samples=points[:3] + points[-2:], extra=dict(points=points, reference_fingerprint=ref_fp),
               assumptions=["'SSE2 backend' means the SSE2 instantiation executed on this AVX2 host (identical instructions; target_feature only adds permission)", "the no_std arms are selected by cfg!(target_feature), trusted to follow -Ctarget-feature"])
    return finish("C03", tier, "exploration", [res], t0)


def repo_packages():
    p = subprocess.run(["cargo", "metadata", "--offline", "--no-deps", "--format-version", "1", "--manifest-path", os.path.join(REPO, "Cargo.toml")], stdout=subprocess.PIPE, stderr=subprocess.PIPE, text=True, env=cargo_env())
    if p.returncode != 0:
        raise Machinery("cargo metadata on the repository failed: " + p.stderr[-2000:])
    return json.loads(p.stdout)["packages"]


def subsets(xs):
    out = [[]]
    for x in xs:
        out += [s + [x] for s in out]
    return out


def c20_probe_jobs(tier):
    """(features, rustflags, target dir) of every probe build of C20"""
    pf = ["chacha_std", "chacha_no_simd", "chacha_simd", "blake_std", "jh_std", "groestl_std", "ppv_std", "ppv_no_simd", "ppv_simd"]  # vprobe's own `std` only in the STD set
    if tier == "thorough":
        sets = subsets(pf)
    else:
        sets = [STD, [], STD + ["ppv_no_simd"], ["ppv_no_simd"], ["chacha_simd", "ppv_simd"], ["blake_std"], ["groestl_std"], ["chacha_no_simd", "jh_std"], ["chacha_std", "ppv_std", "chacha_simd", "ppv_simd", "blake_std", "jh_std", "groestl_std"]]
    # Groestl (not one of C03's dispatching algorithms) selects its implementation by its `std` feature and,
    # with std off, by cfg(target_feature): every C20 probe is built with it, plus one point per
    # subset of the target features its ladder tests (no flags, ssse3, aes, both)
    jobs = [(fs, "", os.path.join(BUILD, "c20p-%d" % (k % 8))) for k, fs in enumerate(sets)]
    # every subset of the target features its cfg ladder mentions (aes, ssse3; sse2 is always on)
    jobs.append(([], "-Ctarget-feature=+ssse3", os.path.join(BUILD, "c20p-tf-ssse3")))
    jobs.append(([], "-Ctarget-feature=+aes", os.path.join(BUILD, "c20p-tf-aesonly")))
    jobs.append(([], "-Ctarget-feature=+ssse3,+sse4.1,+aes", os.path.join(BUILD, "c20p-tf-aes")))
    return jobs


def plan_c20(tier):
    from concurrent.futures import ThreadPoolExecutor
    t0 = time.time()
    selftest()
    pkgs = repo_packages()
    viol, lattice = [], []

    def check_some(job):
        pk, subs, k = job
        out = []
        tdir = os.path.join(BUILD, "c20", "%s-%d" % (pk["name"], k))
        for sub in subs:
            cmd = ["cargo", "check", "--offline", "-q", "--lib", "--manifest-path", pk["manifest_path"], "--no-default-features", "--target-dir", tdir]
            if sub:
                cmd += ["--features", ",".join(sub)]
            p = subprocess.run(cmd, env=cargo_env(), stdout=subprocess.PIPE, stderr=subprocess.STDOUT, text=True)
            errs = [l for l in p.stdout.splitlines() if l.startswith("error")]
            out.append((pk["name"], sub, p.returncode == 0, (errs[0] if errs else p.stdout[-300:])))
        return out

    jobs = []
    for pk in pkgs:
        feats = sorted(f for f in pk["features"] if f != "default")
        subs = sorted(subsets(feats), key=lambda s: (len(s), s))
        lanes = 4 if len(subs) > 8 else (2 if len(subs) > 2 else 1)
        for k in range(lanes):
            jobs.append((pk, subs[k::lanes], k))
    with ThreadPoolExecutor(max_workers=16) as ex:
        parts = list(ex.map(check_some, jobs))
    bypkg = {}
    for part in parts:
        for r in part:
            bypkg.setdefault(r[0], []).append(r)
    allres = [sorted(v, key=lambda r: (len(r[1]), r[1])) for v in bypkg.values()]
    nbuilds = 0
    for res in allres:
        failing = [set(s) for (_, s, ok, _) in res if not ok]
        for (name, sub, ok, err) in res:
            nbuilds += 1
            lattice.append(dict(package=name, features=sub, builds=ok))
            if ok:
                continue
            # report minimal failing feature sets only; supersets are explained by them
            if any(f < set(sub) for f in failing):
                continue
            viol.append(dict(sig="c20:build:%s:%s" % (name, "+".join(sub) if sub else "(none)"), detail="cargo check -p %s --no-default-features --features '%s' fails: %s" % (name, ",".join(sub), err[:300]), replay=dict(package=name, features=sub), count=1 + sum(1 for f in failing if f > set(sub))))
    log("[c20] %d feature-lattice builds %.1fs" % (nbuilds, time.time() - t0))
    # ---- features must only select implementations: probe fingerprints ----
    jobs = c20_probe_jobs(tier)
    # builds in the same target dir must be sequential: group by dir
    bydir = {}
    for fs, flags, d in jobs:
        bydir.setdefault(d, []).append((fs, flags))

    def run_dir(item):
        d, fss = item
        out = []
        for fs, flags in fss:
            binp, err = build_probe(None, fs + ["groestl"], flags, tdir=d)
            out.append((fs, flags, run_probe(binp) if binp else None, err))
        return out

    with ThreadPoolExecutor(max_workers=10) as ex:
        pres = [x for chunk in ex.map(run_dir, bydir.items()) for x in chunk]
    ref_fp, pts, total, cases = None, [], 0, 0
    pres.sort(key=lambda x: (x[0] != STD, bool(x[1]), len(x[0]), x[0]))
    for fs, flags, r, err in pres:
        point = "features[" + ",".join(fs) + "]" + (flags.replace("-Ctarget-feature=", "/target-feature=") if flags else "")
        if r is None:
            errs = [l for l in err.splitlines() if l.startswith("error")]
            viol.append(dict(sig="c20:probe:%s:does-not-build" % point, detail="the probe (std-less Groestl included) does not build in this configuration: " + ("; ".join(errs[:3]) if errs else err[-500:]), replay=dict(features=fs, rustflags=flags), count=1))
            continue
        fp = probe_violations("c20:probe", point, r, ref_fp, viol)
        if not r.get("crashed"):
            machine_violation("c20:probe", point, r, fs, flags, 0, viol)
        if ref_fp is None:
            ref_fp = fp
        if not r.get("crashed"):
            total += r["cases"]
            cases = r["cases"]
        pts.append(dict(features=fs, rustflags=flags, machine=r.get("machine"), fingerprint=r.get("fingerprint"), cases=r.get("cases")))
    # threefish no_unroll selects an implementation too: C09's domain on that build
    r9 = dict(evaluations=0)
    try:
        build("nounroll")
        for sub in ["c09", "c10"]:
            r = run_engine("nounroll", [sub, "--tier", "quick"], "C20-%s-nounroll" % sub)
            r9["evaluations"] += r["evaluations"]
            for v in r.get("violations", []):
                viol.append(dict(v, sig="c20:no_unroll:" + v["sig"]))
    except Machinery as e:
        viol.append(secondary_build_failure("C20", "nounroll", str(e)))
    res = dict(config="lattice", evaluations=nbuilds + total + r9["evaluations"], distinct_nontrivial=nbuilds + len(pts), exhaustive=True, violations=viol, wall_s=time.time() - t0,
               rule="(1) for each of the 9 workspace packages the declared features (cargo metadata, incl. the implicit features of optional dependencies, 'default' excluded) are read and EVERY subset is built with cargo check --lib --no-default-features --features <subset> (minimal failing sets are reported); (2) the probe of C03, here with Groestl-224/256/384/512 added, is built with %s of the implementation-selecting features {chacha std/no_simd/simd, blake std, jh std, groestl std, ppv-lite86 std/no_simd/simd}, and with std off also for every other subset of the target features Groestl's compile-time ladder tests (-Ctarget-feature=+ssse3, +aes, +ssse3,+sse4.1,+aes); its fingerprint must equal the all-std fingerprint, and the dispatched Machine must be the portable one exactly when a no_simd feature is on; (3) Threefish with no_unroll runs C09's and C10's domains against the model. distinct_nontrivial = lattice points built + probe points run." % ("every subset (512)" if tier == "thorough" else "9 chosen subsets"),
               samples=lattice[:2] + lattice[-2:] + pts[:2], extra=dict(lattice_builds=nbuilds, lattice=lattice, probe_points=pts, reference_fingerprint=ref_fp, c09_no_unroll_evaluations=r9["evaluations"]),
               assumptions=["stable toolchain and x86-64 target of this sandbox only", "supersets of a failing minimal feature set are attributed to it"])
    return finish("C20", tier, "exploration", [res], t0)


def plan_c18(tier):
    import tsan
    t0 = time.time()
    selftest()
    r = run_engine("rel", ["c18", "--tier", tier], "C18-%s-rel" % tier, timeout=(900 if tier == "quick" else 6 * 3600))
    info, viol = tsan.run(tier)
    r.setdefault("extra", {})["race_detector_supplement"] = info
    r["violations"] = r.get("violations", []) + viol
    if info.get("available"):
        log("[tsan] %d cold processes, %d reports, %.0fs (build %.0fs)" % (info["cold_processes"], info["reports"], info["wall_s"], info["build_s"]))
    else:
        log("[tsan] race-detector supplement unavailable: %s" % info.get("reason", "")[-200:])
    return finish("C18", tier, "model_checking", [r], t0)


def multi(pid, level, sub, cfgs_quick, cfgs_thorough=None, tiers_env=None):
    return simple(pid, level, sub, cfgs_quick, cfgs_thorough)


PLANS = {
    "C01": simple("C01", "exploration", "c01", ["rel"], ["rel", "ovf"]),
    "C02": simple("C02", "model_checking", "c02", ["rel", "ovf"], ["rel", "ovf", "dev"]),
    "C03": plan_c03,
    "C04": simple("C04", "exploration", "c04", ["rel", "ovf"], ["rel", "ovf", "nosimd"]),
    "C05": simple("C05", "exploration", "c05", ["rel", "ovf"], ["rel", "ovf", "nounroll"]),
    "C06": simple("C06", "exploration", "c06", ["rel", "ovf", "nosimd"]),
    "C07": simple("C07", "exploration", "c07", ["rel", "ovf"]),
    "C08": simple("C08", "model_checking", "c08", ["rel"], ["rel", "ovf", "nosimd"]),
    "C09": simple("C09", "exploration", "c09", ["rel", "ovf", "nounroll"]),
    "C10": simple("C10", "exploration", "c10", ["rel", "ovf", "nounroll"]),
    "C11": simple("C11", "model_checking", "c11", ["rel", "ovf"], ["rel", "ovf", "dev"]),
    "C12": simple("C12", "exploration", "c12", ["rel", "ovf", "nosimd", "nosimd-ovf"]),
    "C13": simple("C13", "exploration", "c13", ["rel", "ovf", "nosimd", "nosimd-ovf"]),
    "C14": simple("C14", "exploration", "c14", ["rel", "ovf", "nosimd", "nosimd-ovf"]),
    "C15": simple("C15", "model_checking", "c15", ["rel", "ovf"], ["rel", "ovf", "nosimd"]),
    "C16": simple("C16", "exploration", "c16", ["rel", "nosimd"]),
    "C17": simple("C17", "model_checking", "c17", ["rel", "ovf"]),
    "C18": plan_c18,
    "C19": simple("C19", "exploration", "c19", ["rel", "ovf"], ["rel", "ovf", "dev"]),
    "C20": plan_c20,
}


def replay(pid, path):
    v = json.load(open(path))
    if pid in ("C03", "C20"):
        # lattice checks live in the driver: re-run the plan and look for the recorded signature
        import io, contextlib
        buf = io.StringIO()
        with contextlib.redirect_stdout(buf):
            PLANS[pid]("quick")
        ev = json.load(open(os.path.join(VERIF, "evidence", pid + ".json")))
        hit = [f for f in os.listdir(os.path.join(VERIF, "replays")) if f.startswith(pid + "-") and json.load(open(os.path.join(VERIF, "replays", f))).get("sig") == v.get("sig") and os.path.getmtime(os.path.join(VERIF, "replays", f)) > time.time() - 3600]
        reproduced = bool(hit) and ev.get("violations", 0) > 0
        print("replay by signature %s: %s" % (v.get("sig"), "violation reproduced" if reproduced else "not reproduced"))
        return 1 if reproduced else 0
    cfgs = v.get("configs") or ["rel"]
    cfg = cfgs[0] if cfgs[0] in CONFIGS else "rel"
    binp = build(cfg)
    p = subprocess.run([binp, "replay", path, "--config", cfg], cwd=VERIF)
    return p.returncode


def main(argv):
    if not argv:
        print(__doc__)
        return 2
    tier = os.environ.get("VERIF_TIER", "quick")
    if "--tier" in argv:
        tier = argv[argv.index("--tier") + 1]
    try:
        if argv[0] == "setup":
            assert_wiring()
            from concurrent.futures import ThreadPoolExecutor
            for c in ["rel", "ovf", "nosimd", "nosimd-ovf", "nounroll"]:
                build(c)
            with ThreadPoolExecutor(max_workers=4) as ex:
                for n, (b, err) in zip(PROBE_CONFIGS, ex.map(lambda n: build_probe(n, PROBE_CONFIGS[n][0], PROBE_CONFIGS[n][1]), list(PROBE_CONFIGS))):
                    if b is None:
                        log("[setup] probe configuration %s does not build (reported by C03/C20 as a finding)" % n)
            bydir = {}
            for fs, flags, d in c20_probe_jobs("quick"):
                bydir.setdefault(d, []).append((fs, flags))
            with ThreadPoolExecutor(max_workers=10) as ex:
                list(ex.map(lambda it: [build_probe(None, fs + ["groestl"], flags, tdir=it[0]) for fs, flags in it[1]], bydir.items()))
            selftest()
            import tsan
            secs, err = tsan.build()
            log("[setup] race-detector build: %s" % ("%.0fs" % secs if secs is not None else "unavailable (%s)" % err[-200:]))
            return 0
        if argv[0] == "selftest":
            selftest()
            return 0
        pid = argv[0].upper()
        if "--replay" in argv:
            return replay(pid, argv[argv.index("--replay") + 1])
        if pid not in PLANS:
            log("unknown property " + pid)
            return 2
        assert_wiring()
        return PLANS[pid](tier)
    except Machinery as e:
        log("MACHINERY FAILURE: " + str(e))
        return 2
    except subprocess.TimeoutExpired as e:
        log("MACHINERY FAILURE: timeout " + str(e))
        return 2
