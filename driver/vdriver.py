"""Build configurations -> engines -> known findings -> evidence. See ../check."""
import hashlib
import json
import os
import shutil
import subprocess
import sys
import time

VERIF = os.path.dirname(os.path.dirname(os.path.abspath(__file__)))
REPO = os.environ.get("VERIF_REPO", "/repo")
BUILD = os.path.join(VERIF, ".build")
HARNESS = os.path.join(VERIF, "harness")
RESULTS = os.path.join(BUILD, "results")
GUARD = "--cfg cryptocorrosion_verif"


class Machinery(Exception):
    """harness does not build / self-test fails / engine crashed: exit 2, never a verdict"""


def log(*a):
    print(*a, file=sys.stderr, flush=True)


# ------------------------------------------------------------------------------------------------
# build configurations (DESIGN.md section 5)
#   target: directory under .build ; profile: cargo profile ; features: vh features
CONFIGS = {
    "rel": dict(target="rel", profile="release", features=[], rustflags=""),
    "ovf": dict(target="rel", profile="ovf", features=[], rustflags=""),
    "dev": dict(target="rel", profile="dev", features=[], rustflags=""),
    "nosimd": dict(target="nosimd", profile="release", features=["nosimd"], rustflags=""),
    "nosimd-ovf": dict(target="nosimd", profile="ovf", features=["nosimd"], rustflags=""),
    "nounroll": dict(target="nounroll", profile="release", features=["nounroll"], rustflags=""),
}


def cargo_env(extra_rustflags=""):
    env = dict(os.environ)
    env["CARGO_NET_OFFLINE"] = "true"
    env["RUSTFLAGS"] = ("-Awarnings " + GUARD + " " + extra_rustflags).strip()
    env.pop("CARGO_TARGET_DIR", None)
    return env


def profile_dir(profile):
    return {"release": "release", "dev": "debug"}.get(profile, profile)


_built = set()


def build(config, package="vh"):
    """(Re)build one configuration from /repo's current working tree; returns the binary path."""
    c = CONFIGS[config]
    tdir = os.path.join(BUILD, c["target"])
    binp = os.path.join(tdir, profile_dir(c["profile"]), package)
    key = (config, package)
    if key in _built:
        return binp
    cmd = ["cargo", "build", "--offline", "-q", "-p", package, "--target-dir", tdir]
    if c["profile"] == "release":
        cmd.append("--release")
    elif c["profile"] != "dev":
        cmd += ["--profile", c["profile"]]
    if c["features"]:
        cmd += ["--features", ",".join(c["features"])]
    t0 = time.time()
    p = subprocess.run(cmd, cwd=HARNESS, env=cargo_env(c["rustflags"]), stdout=subprocess.PIPE, stderr=subprocess.STDOUT, text=True)
    if p.returncode != 0:
        raise Machinery("build of configuration %s failed:\n%s" % (config, p.stdout[-4000:]))
    log("[build] %s (%s) %.1fs" % (config, package, time.time() - t0))
    _built.add(key)
    return binp


def assert_wiring():
    """every crate under test must resolve to the working tree, not to the registry"""
    p = subprocess.run(["cargo", "metadata", "--offline", "--format-version", "1"], cwd=HARNESS, env=cargo_env(), stdout=subprocess.PIPE, stderr=subprocess.PIPE, text=True)
    if p.returncode != 0:
        raise Machinery("cargo metadata failed: " + p.stderr[-2000:])
    md = json.loads(p.stdout)
    under_test = {"ppv-lite86", "threefish-cipher", "c2-chacha", "blake-hash", "groestl-aesni", "jh-x86_64", "skein-hash", "ppv-null"}
    for pk in md["packages"]:
        if pk["name"] in under_test and not pk["manifest_path"].startswith(REPO + "/"):
            raise Machinery("%s resolves to %s, not to the working tree" % (pk["name"], pk["manifest_path"]))


def run_engine(config, args, name, timeout=None, env_extra=None):
    """run `vh <args> --out <file>`; returns the parsed result"""
    binp = build(config)
    os.makedirs(RESULTS, exist_ok=True)
    out = os.path.join(RESULTS, name + ".json")
    if os.path.exists(out):
        os.remove(out)
    env = dict(os.environ)
    if env_extra:
        env.update(env_extra)
    t0 = time.time()
    p = subprocess.run([binp] + args + ["--config", config, "--out", out], cwd=VERIF, env=env, stdout=subprocess.PIPE, stderr=subprocess.PIPE, text=True, timeout=timeout)
    if p.stderr.strip():
        for line in p.stderr.strip().splitlines()[:40]:
            log("    " + line[:300])
    if p.returncode != 0 or not os.path.exists(out):
        raise Machinery("engine %s %s exited %s without a result:\n%s" % (config, " ".join(args), p.returncode, p.stderr[-3000:]))
    r = json.load(open(out))
    r["_engine_wall_s"] = time.time() - t0
    return r


_selftest_done = False


def selftest():
    global _selftest_done
    if _selftest_done:
        return
    binp = build("rel")
    p = subprocess.run([binp, "selftest"], cwd=VERIF, stdout=subprocess.PIPE, stderr=subprocess.STDOUT, text=True, env=dict(os.environ, VERIF_REPO=REPO))
    if p.returncode != 0:
        raise Machinery("reference-model self-test failed:\n" + p.stdout[-3000:])
    log("[selftest] " + p.stdout.strip().splitlines()[-1])
    _selftest_done = True


# ------------------------------------------------------------------------------------------------
# known findings (DESIGN.md section 8): committed, never written at run time
def load_known():
    known = {}
    path = os.path.join(VERIF, "KNOWN_FINDINGS.txt")
    if not os.path.exists(path):
        return known
    for line in open(path):
        line = line.strip()
        if not line.startswith("known:"):
            continue  # `fixed:` lines and comments suppress nothing
        body, _, what = line[len("known:"):].partition("--")
        fields = dict(f.split("=", 1) for f in body.split() if "=" in f)
        known[(fields["property"], fields["sig"])] = what.strip()
    return known


# ------------------------------------------------------------------------------------------------
def finish(pid, tier, level, results, t0, extra_cov=None, assumptions=None):
    """merge engine results, apply known findings, write replays + evidence, print verdict lines"""
    known = load_known()
    viol = {}
    for r in results:
        for v in r.get("violations", []):
            e = viol.setdefault(v["sig"], dict(v, configs=[]))
            e["configs"].append(r.get("config", "?"))
    cov = {}
    cov["evaluations"] = sum(r.get("evaluations", 0) for r in results)
    cov["distinct_nontrivial"] = max([r.get("distinct_nontrivial", 0) for r in results] + [0])
    rules = []
    for r in results:
        if r.get("rule") and r["rule"] not in rules:
            rules.append(r["rule"])
    cov["rule"] = " || ".join(rules)
    samples = []
    for r in results:
        for s in r.get("samples", []):
            if len(samples) < 8:
                samples.append(s)
    cov["samples"] = samples
    cov["exhaustive"] = all(r.get("exhaustive", False) for r in results) and len(results) > 0
    cov["configs"] = [
        dict(config=r.get("config"), evaluations=r.get("evaluations"), distinct_nontrivial=r.get("distinct_nontrivial"), wall_s=round(r.get("wall_s", 0), 2), extra=r.get("extra", {}))
        for r in results
    ]
    if level == "model_checking":
        cov["states"] = sum(r.get("extra", {}).get("states", 0) for r in results)
        cov["transitions"] = sum(r.get("extra", {}).get("transitions", 0) for r in results)
        cov["traces_validated_against_impl"] = sum(r.get("extra", {}).get("traces_validated_against_impl", 0) for r in results)
    if extra_cov:
        cov.update(extra_cov)
    assume = []
    for r in results:
        for a in r.get("assumptions", []):
            if a not in assume:
                assume.append(a)
    for a in assumptions or []:
        if a not in assume:
            assume.append(a)

    new, listed = [], []
    for sig, v in sorted(viol.items()):
        if (pid, sig) in known:
            listed.append((sig, known[(pid, sig)]))
        else:
            new.append(v)
    os.makedirs(os.path.join(VERIF, "replays"), exist_ok=True)
    lines = []
    for sig, what in listed:
        lines.append("KNOWN-FINDING: property=%s %s [sig=%s]" % (pid, what, sig))
    for v in new:
        h = hashlib.sha1(v["sig"].encode()).hexdigest()[:10]
        path = os.path.join(VERIF, "replays", "%s-%s.json" % (pid, h))
        json.dump(dict(property=pid, sig=v["sig"], detail=v["detail"], configs=v["configs"], replay=v["replay"]), open(path, "w"), indent=1)
        lines.append("VIOLATION property=%s replay=%s" % (pid, path))
        log("  %s: %s (configs %s, x%s)" % (v["sig"], v["detail"][:400], ",".join(v["configs"]), v.get("count", 1)))
    cov["known_findings_matched"] = [s for s, _ in listed]
    ev = dict(
        property_id=pid,
        tier=tier,
        seed=int(os.environ.get("VERIF_SEED", "0") or 0),
        level=level,
        coverage=cov,
        assumptions=assume,
        wall_s=round(time.time() - t0, 2),
        violations=len(new),
    )
    os.makedirs(os.path.join(VERIF, "evidence"), exist_ok=True)
    json.dump(ev, open(os.path.join(VERIF, "evidence", pid + ".json"), "w"), indent=1)
    for l in lines:
        print(l, flush=True)
    print("%s %s: %s; evaluations=%d states=%s violations=%d known=%d wall=%.1fs" % (pid, tier, "HELD" if not new else "VIOLATED", cov["evaluations"], cov.get("states", "-"), len(new), len(listed), time.time() - t0), flush=True)
    return 1 if new else 0


# ------------------------------------------------------------------------------------------------
# per-property plans
def simple(pid, level, sub, configs_quick, configs_thorough=None):
    def run(tier):
        t0 = time.time()
        selftest()
        cfgs = configs_quick if tier == "quick" else (configs_thorough or configs_quick)
        results = [run_engine(c, [sub, "--tier", tier], "%s-%s-%s" % (pid, tier, c)) for c in cfgs]
        return finish(pid, tier, level, results, t0)
    return run


PLANS = {
    "C01": simple("C01", "exploration", "c01", ["rel"]),
    "C02": simple("C02", "model_checking", "c02", ["rel", "ovf"], ["rel", "ovf", "dev"]),
    "C11": simple("C11", "model_checking", "c11", ["rel", "ovf"], ["rel", "ovf", "dev"]),
}


def replay(pid, path):
    v = json.load(open(path))
    cfgs = v.get("configs") or ["rel"]
    cfg = cfgs[0] if cfgs[0] in CONFIGS else "rel"
    binp = build(cfg)
    p = subprocess.run([binp, "replay", path], cwd=VERIF)
    return p.returncode


def main(argv):
    if not argv:
        print(__doc__)
        return 2
    tier = os.environ.get("VERIF_TIER", "quick")
    if "--tier" in argv:
        tier = argv[argv.index("--tier") + 1]
    try:
        if argv[0] == "setup":
            assert_wiring()
            for c in ["rel", "ovf"]:
                build(c)
            selftest()
            return 0
        if argv[0] == "selftest":
            selftest()
            return 0
        pid = argv[0].upper()
        if "--replay" in argv:
            return replay(pid, argv[argv.index("--replay") + 1])
        if pid not in PLANS:
            log("unknown property " + pid)
            return 2
        assert_wiring()
        return PLANS[pid](tier)
    except Machinery as e:
        log("MACHINERY FAILURE: " + str(e))
        return 2
    except subprocess.TimeoutExpired as e:
        log("MACHINERY FAILURE: timeout " + str(e))
        return 2
