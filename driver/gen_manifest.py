#!/usr/bin/env python3
"""Writes /verif/MANIFEST.json from the table below (kept in one place so it cannot drift)."""
import json
import os
import subprocess

VERIF = os.path.dirname(os.path.dirname(os.path.abspath(__file__)))

HOOK_COMMITS = ["ffba5fc", "534c1c6"]

# id -> (engine, level, technique, design_ref, text, note, has_thorough)
CHECKS = {
    "C01": ("venum", "exploration", "bounded-exhaustive differential enumeration against an independent scalar model",
            "6/C01",
            "Every key bit, every nonce bit and every listed (position, length) pair is executed for all 7 cipher types and compared byte-for-byte (plus canaries around the buffer) with a scalar RFC 7539 / HChaCha model; control-flow dimensions are complete on the listed sets, the 2^256 value space is covered by a declared alphabet.",
            "trusts vref::chacha (self-tested against RFC 7539 2.3.2/2.4.2, the XChaCha draft HChaCha20 vector and the repository's third-party vectors); value alphabet, not all keys",
            True),
    "C02": ("vhist", "model_checking", "explicit-state BFS over the real cipher object to a fixpoint, model = absolute position + scalar keystream",
            "6/C02",
            "All reachable states of the real cipher object under a menu of every seek position (7 integer types), every request length and current_pos inside three position windows are explored to a fixpoint; every transition is an implementation call compared with the position model, and every successful request is repeated through the infallible apply_keystream on a twin object (same bytes, same state afterwards), in release and overflow-checked builds. A second, stateless phase executes every history of 3 (4) calls over a 75-entry menu on live objects (no use of the cipher's fields), and stateright re-explores the small systems as an independent cross-check.",
            "window restriction (positions near 0, 2^38 and 2^64 bytes); quick tier merges states that differ only in dead bytes of the block buffer for deduplication only (stored states keep their real bytes), thorough uses the exact key; needs the public state fields of the cipher objects (harness feature `internals`)",
            True),
    "C03": ("venum", "exploration", "complete enumeration of the 13-point backend/dispatch configuration lattice, differential against the reference models and across points",
            "6/C03",
            "The configuration lattice (6 std-dispatch points via hook H1, 5 no_std compile-time points, no_simd with/without std) is enumerated completely; in every point the same probe runs every dispatching algorithm on a bounded input set, compares with the reference models and the fingerprints of all points must be equal, and the Machine type each of the three dispatch macros instantiates (reported by the probe) must be the portable one under no_simd and otherwise must not exceed what the point permits (implementation-selection oracle).",
            "inputs per point are a bounded set (C01/C04/C06 go deeper on the default point); all backends are executed on this AVX2 host",
            True),
    "C04": ("venum", "exploration", "bounded-exhaustive enumeration of message lengths and bit positions against an independent BLAKE model",
            "6/C04",
            "Every message length over 9 (thorough 33) blocks in three byte patterns, every one-hot message at the padding-critical lengths and lengths 2^k-1..2^k+1 are hashed by all 4 variants under CPUID dispatch and under every backend forced through hook H1, in release and overflow-checked builds, and compared with a scalar model whose constants are derived from pi and square roots.",
            "trusts vref::blake (self-tested against all four shipped KAT files incl. the 384/512 files the repository's tests skip)",
            True),
    "C05": ("venum", "exploration", "bounded-exhaustive enumeration over state size x output size x message length against an independent Skein/Threefish model",
            "6/C05",
            "3 state sizes x 27 output sizes (1..65536 bytes, incl. non-multiples of 8, several output blocks and sizes at the 2^14 / 2^16 marks) x every message length over 4 (thorough 9) blocks, plus one-hot messages, long messages and, for every (state size, output size), reuse after reset / finalize_reset / finalize_fixed_reset, compared with UBI over the model's own Threefish, in release and overflow-checked builds.",
            "trusts vref::skein/threefish (self-tested against the 6 shipped KAT files and the Skein submission's Threefish vectors); output sizes are a list, not all N",
            True),
    "C06": ("venum", "exploration", "bounded-exhaustive enumeration: bit-sliced F8 vs nibble-oriented definition at every input bit position, plus digest length sweep",
            "6/C06",
            "F8 through the public Compressor and through f8_impl::<M> on every backend is compared with the specification's nibble-oriented F8 for every one-hot bit of the 1024-bit state and of the 512-bit block (and more in thorough); digests of every length over 8 (32) blocks and long messages are compared with the model under CPUID dispatch and under every forced backend.",
            "trusts vref::jh (generated round constants and IVs; self-tested against all 8 NIST KAT files)",
            True),
    "C07": ("venum", "exploration", "bounded-exhaustive enumeration of message lengths incl. block-counter byte boundaries against an independent byte-matrix Groestl model",
            "6/C07",
            "Every length over 8 (17) blocks in three patterns, one-hot messages at the padding-block boundary and lengths whose block count crosses 255/256 (thorough 65535/65536) for all 4 variants against a byte-matrix model with a generated S-box, in release and overflow-checked builds.",
            "trusts vref::groestl (self-tested against the 4 shipped vector files)",
            True),
    "C08": ("vhist", "model_checking", "exhaustive enumeration of operation histories (update/clone/reset/finalize_reset/finalize, two live instances) executed on the real hashers",
            "6/C08",
            "Every valid history of 5 (thorough 6) operations over update with 8 block-relative lengths, clone, reset, Digest::finalize_reset, FixedOutput::finalize_fixed_reset, finalize with up to two live instances is executed from scratch for each of the 15 hashers; every digest is compared with the one-shot digest and with the reference model; plus every two-piece split.",
            "stateless search (hashers have private state): no state merging, bound is the history depth",
            True),
    "C09": ("venum", "exploration", "bounded-exhaustive differential enumeration (every key/tweak/block bit) against an independent Threefish model, unrolled and no_unroll builds",
            "6/C09",
            "Every one-hot key, tweak and block bit, word-boundary values and the parity-word-zero key for all three sizes, through encrypt_block, the slice entry point encrypt_blocks, the par-blocks entry points and ciphers built by new, new_from_slice and clone, with all-zero key/tweak products, in the default, the overflow-checked and the no_unroll build, against a round-loop model with on-the-fly subkeys.",
            "trusts vref::threefish (Skein submission vectors); value alphabet",
            True),
    "C10": ("venum", "exploration", "bounded-exhaustive enumeration of both composition orders plus decrypt against the model",
            "6/C10",
            "On C09's domain and through both the single-block and the slice entry points: dec(enc(x)) = x, enc(dec(x)) = x and decrypt equals the model's inverse, so compensating errors are not accepted; default, overflow-checked and no_unroll builds.",
            "value alphabet as C09",
            True),
    "C11": ("vhist", "model_checking", "explicit-state BFS over the real cipher object incl. start states after 2^64-k blocks; monitor for atomic exhaustion errors",
            "6/C11",
            "Same explorer as C02 with the end-of-keystream monitor: dense seeks and oversized requests around 2^38 bytes for IETF, start states just below 2^64 blocks for the 64-bit-counter types; Err must leave data and position untouched, requests ending exactly at the limit succeed, no block index is ever produced twice.",
            "states after 2^64-k blocks are entered through the public fields of the cipher (the invariant that makes them legitimate is stated in DESIGN.md)",
            True),
    "C12": ("venum", "exploration", "complete enumeration of (backend, vector type, operation) triples x declared operand alphabet, against scalar arithmetic; depth-2 closure of unary ops",
            "6/C12",
            "Every operation the Machine trait bounds require, on every vector type, on every backend instantiated directly (SSE2, SSSE3, SSE4.1/AVX, AVX2, generic), over an alphabet with every one-hot and one-cold word value in every word position, compared with u32/u64/u128 scalar arithmetic; every ordered pair of unary ops as well.",
            "operand alphabet instead of all 2^512 values; the AVX machine shares its types with SSE4.1 (covered through dispatch in C03/C14)",
            True),
    "C13": ("venum", "exploration", "complete enumeration of (backend, vector type, data-movement operation) x every index x one-hot bit patterns against array semantics",
            "6/C13",
            "Round trips through storage, lanes, insert/extract at every index, transpose4, to_scalars, little-/big-endian byte loads and stores, the array views of the storage types and their Default / == for every backend and vector type on every one-hot bit; on the x86 machines also the impls outside the trait vocabulary while they exist (u128xN reinterpreted into the 32-/64-bit-word types, == and Default of u32x4/u64x2/x2, UnsafeFrom).",
            "values: fillers, 0, all-ones, byte-counting pattern and every one-hot bit",
            True),
    "C14": ("venum", "exploration", "bounded-exhaustive enumeration over counters at every carry position x double rounds 0..=10 x every backend, plus all refill/refill4 words up to length 4",
            "6/C14",
            "refill4 is compared with four refills (bytes and final state) and both with the block function for counters placing the 32-bit carry in each of the four lanes and within 13 of 2^64, for 0..=10 double rounds, on CPUID dispatch, every forced backend (hook H1) and the generic backend, in release and overflow-checked builds.",
            "key / stream-id alphabet; hook H1 trusted to force the dispatch arm (its hit counters are asserted non-zero)",
            True),
    "C15": ("vhist", "model_checking", "explicit-state BFS over set/get/refill/refill4 on the real ChaCha state; complete single-bit and word-pair enumeration for the equality predicates",
            "6/C15",
            "BFS to depth 12 (24) over set_stream_param with 7 (11) boundary values per parameter, getters and both refills from three seeds; every step checks getter values, isolation, key words (== against a directly built twin) and output against the block function; the predicates are checked on every single-bit difference of all 12 stored words and every word pair.",
            "parameter values are a boundary alphabet",
            True),
    "C16": ("venum", "exploration", "complete enumeration of placements (guard-page abutting, every alignment 0..63) x lengths x byte-slice APIs x backends on a PROT_NONE-guarded arena",
            "6/C16",
            "Every byte-slice API is run on slices abutting an unmapped page before and after and at every alignment 0..63, for every length 0..=130 and block-size boundaries; results must equal the heap run, bytes outside the slice must be unchanged, and the subprocess must survive; the vector load/store entry points of every backend are also given slices of every wrong length 0..=40 abutting the guard pages (they must refuse without touching memory outside the slice).",
            "an out-of-slice read that stays inside the mapped arena and does not change the result is invisible; this host's page size",
            False),
    "C17": ("vhist", "model_checking", "exhaustive enumeration of short update/finalize histories from fast-forwarded counter states around every word boundary (hook H2); real streaming across the first boundaries",
            "6/C17",
            "For every hasher and counter boundary, implementation and reference are set to the same counter value up to 4 blocks below the boundary and every history of up to 2 (3) updates + finalize is executed on both, in release and overflow-checked builds; Groestl is streamed for real through 2^8 and 2^16 blocks, and in the thorough tier BLAKE-224/256 and JH through 2^32 bits and Skein-512 through 2^32 bytes, each also with one single 512 MiB update call, and Groestl with one single 4 GiB update call; histories include reset operations after a boundary.",
            "beyond the first boundary the state is fast-forwarded (counter overwritten on the initial chaining value); JH's 512 MiB prefix uses the public Compressor certified by C06",
            True),
    "C18": ("vsched", "model_checking", "exhaustive enumeration of all call-granularity interleavings of 3-4 threads in cold subprocesses under a baton scheduler, and of instance interleavings in one thread",
            "6/C18",
            "Every interleaving of the threads' calls (1680 / 2520 schedules per scenario, 15 scenarios) is executed in a fresh process with real OS threads under a baton scheduler, so each lazy global is first touched at every position by every thread, and again on a single thread; per-thread results must equal the reference model. Two supplements are labelled as such and never counted as coverage: free-running repeated threads (sampling) and a ThreadSanitizer build of the thread bodies (race detector).",
            "switches only between API calls: pre-emption inside Once / CPUID caching / a compression is out of reach (DESIGN.md section 10)",
            True),
    "C19": ("venum", "exploration", "bounded-exhaustive enumeration of every public method x operand alphabet x all rotation amounts x all lane indices against wrapping scalar arithmetic, in two build profiles",
            "6/C19",
            "Every public method of the five ppv-null types over the one-hot/one-cold alphabet in every lane, every rotation amount 1..bits-1 and every lane index, compared with wrapping scalar arithmetic in release and overflow-checked builds.",
            "operand alphabet",
            True),
    "C20": ("venum", "exploration", "complete enumeration of every package's feature lattice (every subset built), plus probe fingerprints across implementation-selecting feature sets",
            "6/C20",
            "Every subset of the declared features of each of the 9 packages is built with default features off; the probe of C03, extended by Groestl-224..512, is built with 9 (thorough: all 512) implementation-selecting feature sets and, with std off, for every subset of the target features Groestl's compile-time ladder tests (none, ssse3, aes, both), and must give the reference fingerprint and report the Machine type that feature set selects; a configuration of the harness that stops building is a violation; Threefish no_unroll runs C09's domain.",
            "stable toolchain and x86-64 target of this sandbox; one known finding (packed_simd) is listed in KNOWN_FINDINGS.txt",
            True),
}

NOT_YET = {
}

def main():
    checks = []
    for pid, (engine, level, tech, ref, text, note, thorough) in sorted(CHECKS.items()):
        c = {
            "property_id": pid,
            "quick_cmd": "./check %s --tier quick" % pid,
            "evidence_file": "/verif/evidence/%s.json" % pid,
            "replay_cmd_template": "./check %s --replay {path}" % pid,
            "engine": engine,
            "level_claimed": {"category": level, "text": text, "design_ref": "DESIGN.md section " + ref},
            "level_note": note,
            "technique": tech,
        }
        if thorough:
            c["thorough_cmd"] = "./check %s --tier thorough" % pid
        checks.append(c)
    props = [json.loads(l)["id"] for l in open(os.path.join(VERIF, "properties.jsonl"))]
    na = [{"property_id": p, "reason": NOT_YET.get(p, "check not built yet at this commit (work in progress, see DESIGN.md section 12)")} for p in props if p not in CHECKS]
    m = {
        "version": 1,
        "setup_cmd": "./check setup",
        "hooks": {
            "guard": "cryptocorrosion_verif",
            "enable": "RUSTFLAGS=\"--cfg cryptocorrosion_verif\" (set by ./check for every harness build; the harness depends on /repo's crates by path)",
            "baseline_off_cmd": "cd /repo && cargo test --workspace --no-fail-fast --offline",
            "source_commits": HOOK_COMMITS,
            "add_only": True,
        },
        "engines": [
            {"name": "vhist", "path": "harness/vh/src/explore.rs", "serves_properties": ["C02", "C08", "C11", "C14", "C15", "C17"], "kind_free_text": "Engine H: explicit-state breadth-first search whose transition function calls the real implementation; exact state key; parent pointers give shortest counterexamples"},
            {"name": "venum", "path": "harness/vh/src", "serves_properties": ["C01", "C04", "C05", "C06", "C07", "C09", "C10", "C12", "C13", "C14", "C16", "C19"], "kind_free_text": "Engine E: bounded-exhaustive enumeration of a declared finite domain, differential against vref (independent scalar reference models)"},
            {"name": "vsched", "path": "harness/vh/src", "serves_properties": ["C18"], "kind_free_text": "Engine S: enumerates every interleaving of N threads' API calls at call granularity, each schedule in a cold subprocess"},
            {"name": "vref", "path": "ref", "serves_properties": [], "kind_free_text": "reference models written from the specifications + self-test against RFC vectors and all shipped KATs"},
        ],
        "checks": checks,
        "not_applicable": na,
        "notes": "All checks go through ./check (driver/vdriver.py): build configuration -> engine -> KNOWN_FINDINGS.txt -> evidence. Exit 2 = machinery failure, never a verdict.",
    }
    json.dump(m, open(os.path.join(VERIF, "MANIFEST.json"), "w"), indent=1)
    print("MANIFEST.json: %d checks, %d not claimed" % (len(checks), len(na)))

if __name__ == "__main__":
    main()
