#!/usr/bin/env python3
"""Writes /verif/MANIFEST.json from the table below (kept in one place so it cannot drift)."""
import json
import os
import subprocess

VERIF = os.path.dirname(os.path.dirname(os.path.abspath(__file__)))

HOOK_COMMITS = ["ffba5fc", "534c1c6"]

# id -> (engine, level, technique, design_ref, text, note, has_thorough)
CHECKS = {
    "C01": ("venum", "exploration", "bounded-exhaustive differential enumeration against an independent scalar model",
            "6/C01",
            "Every key bit, every nonce bit and every listed (position, length) pair is executed for all 7 cipher types and compared byte-for-byte (plus canaries around the buffer) with a scalar RFC 7539 / HChaCha model; control-flow dimensions are complete on the listed sets, the 2^256 value space is covered by a declared alphabet.",
            "trusts vref::chacha (self-tested against RFC 7539 2.3.2/2.4.2, the XChaCha draft HChaCha20 vector and the repository's third-party vectors); value alphabet, not all keys",
            True),
    "C02": ("vhist", "model_checking", "explicit-state BFS over the real cipher object to a fixpoint, model = absolute position + scalar keystream",
            "6/C02",
            "All reachable states of the real cipher object under a menu of every seek position (7 integer types), every request length and current_pos inside three position windows are explored to a fixpoint; every transition is an implementation call compared with the position model, in release and overflow-checked builds.",
            "window restriction (positions near 0, 2^38 and 2^64 bytes); quick tier merges states that differ only in dead bytes of the block buffer (argument in DESIGN.md), thorough uses the exact key",
            True),
    "C11": ("vhist", "model_checking", "explicit-state BFS over the real cipher object incl. start states after 2^64-k blocks; monitor for atomic exhaustion errors",
            "6/C11",
            "Same explorer as C02 with the end-of-keystream monitor: dense seeks and oversized requests around 2^38 bytes for IETF, start states just below 2^64 blocks for the 64-bit-counter types; Err must leave data and position untouched, requests ending exactly at the limit succeed, no block index is ever produced twice.",
            "states after 2^64-k blocks are entered through the public fields of the cipher (the invariant that makes them legitimate is stated in DESIGN.md)",
            True),
}

NOT_YET = {
}

def main():
    checks = []
    for pid, (engine, level, tech, ref, text, note, thorough) in sorted(CHECKS.items()):
        c = {
            "property_id": pid,
            "quick_cmd": "./check %s --tier quick" % pid,
            "evidence_file": "/verif/evidence/%s.json" % pid,
            "replay_cmd_template": "./check %s --replay {path}" % pid,
            "engine": engine,
            "level_claimed": {"category": level, "text": text, "design_ref": "DESIGN.md section " + ref},
            "level_note": note,
            "technique": tech,
        }
        if thorough:
            c["thorough_cmd"] = "./check %s --tier thorough" % pid
        checks.append(c)
    props = [json.loads(l)["id"] for l in open(os.path.join(VERIF, "properties.jsonl"))]
    na = [{"property_id": p, "reason": NOT_YET.get(p, "check not built yet at this commit (work in progress, see DESIGN.md section 12)")} for p in props if p not in CHECKS]
    m = {
        "version": 1,
        "setup_cmd": "./check setup",
        "hooks": {
            "guard": "cryptocorrosion_verif",
            "enable": "RUSTFLAGS=\"--cfg cryptocorrosion_verif\" (set by ./check for every harness build; the harness depends on /repo's crates by path)",
            "baseline_off_cmd": "cd /repo && cargo test --workspace --no-fail-fast --offline",
            "source_commits": HOOK_COMMITS,
            "add_only": True,
        },
        "engines": [
            {"name": "vhist", "path": "harness/vh/src/explore.rs", "serves_properties": ["C02", "C08", "C11", "C14", "C15", "C17"], "kind_free_text": "Engine H: explicit-state breadth-first search whose transition function calls the real implementation; exact state key; parent pointers give shortest counterexamples"},
            {"name": "venum", "path": "harness/vh/src", "serves_properties": ["C01", "C04", "C05", "C06", "C07", "C09", "C10", "C12", "C13", "C14", "C16", "C19"], "kind_free_text": "Engine E: bounded-exhaustive enumeration of a declared finite domain, differential against vref (independent scalar reference models)"},
            {"name": "vsched", "path": "harness/vh/src", "serves_properties": ["C18"], "kind_free_text": "Engine S: enumerates every interleaving of N threads' API calls at call granularity, each schedule in a cold subprocess"},
            {"name": "vref", "path": "ref", "serves_properties": [], "kind_free_text": "reference models written from the specifications + self-test against RFC vectors and all shipped KATs"},
        ],
        "checks": checks,
        "not_applicable": na,
        "notes": "All checks go through ./check (driver/vdriver.py): build configuration -> engine -> KNOWN_FINDINGS.txt -> evidence. Exit 2 = machinery failure, never a verdict.",
    }
    json.dump(m, open(os.path.join(VERIF, "MANIFEST.json"), "w"), indent=1)
    print("MANIFEST.json: %d checks, %d not claimed" % (len(checks), len(na)))

if __name__ == "__main__":
    main()
