#!/usr/bin/env python3
"""Prints the markdown table of DESIGN.md section 9 from seeded/*/meta.json."""
import glob, json, os
V = os.path.dirname(os.path.dirname(os.path.abspath(__file__)))
print("| seed | breaks | what it needs to manifest | first round: caught by (exit 1) / missed by (exit 0) | after strengthening |")
print("|---|---|---|---|---|")
for f in sorted(glob.glob(V + "/seeded/*/meta.json")):
    m = json.load(open(f))
    c = m["checks"]
    caught = [p for p, d in c.items() if d["exit"] == 1]
    missed = [p for p, d in c.items() if d["exit"] == 0]
    other = [p + "(exit %d)" % d["exit"] for p, d in c.items() if d["exit"] not in (0, 1)]
    r = m.get("recheck_after_strengthening")
    after = ""
    if r:
        after = "caught by " + ", ".join(r["caught_by"]) if r["caught_by"] else "still missed"
    print("| %s | %s | %s | %s%s%s | %s |" % (m["seed"], m["breaks_property"], m["needs"].replace("|", "/"), ("**" + ", ".join(caught) + "**") if caught else "**none**", (" / " + ", ".join(missed)) if missed else "", (" / " + ", ".join(other)) if other else "", after))
