"""Race-detector pass for C18 (supplement, DESIGN.md section 6/C18 and 10).

The thread bodies of the free-running supplement (harness-tsan/, no oracle of their own) are built
with the nightly toolchain, `-Zsanitizer=thread -Zbuild-std`, against /repo's working tree and run in
several cold processes; any ThreadSanitizer report is a violation. The cooperative baton scheduler of
Engine S creates happens-before edges between calls and would blind the detector, so this is a
separate, free-running run of the same kind of harness body.

If the nightly toolchain / rust-src are not usable the pass reports itself as unavailable (it is a
supplement; the exhaustive part of C18 does not depend on it).
"""
import os
import re
import subprocess
import time

VERIF = os.path.dirname(os.path.dirname(os.path.abspath(__file__)))
CRATE = os.path.join(VERIF, "harness-tsan")
TDIR = os.path.join(VERIF, ".build", "tsan")
BIN = os.path.join(TDIR, "x86_64-unknown-linux-gnu", "debug", "vtsan")
# (copies per program, repetitions, cold processes): short bodies detect first-use races most reliably
SHAPES_QUICK = [(8, 1, 6), (16, 1, 3), (3, 5, 3)]
SHAPES_THOROUGH = [(8, 1, 30), (16, 1, 15), (3, 5, 10), (4, 20, 5)]


def build():
    env = dict(os.environ)
    env["CARGO_NET_OFFLINE"] = "true"
    env["RUSTFLAGS"] = "-Awarnings -Zsanitizer=thread"
    env.pop("CARGO_TARGET_DIR", None)
    cmd = ["cargo", "+nightly", "build", "-q", "-Zbuild-std", "--target", "x86_64-unknown-linux-gnu", "--offline", "--target-dir", TDIR]
    t0 = time.time()
    try:
        p = subprocess.run(cmd, cwd=CRATE, env=env, stdout=subprocess.PIPE, stderr=subprocess.STDOUT, text=True, timeout=1800)
    except Exception as e:  # toolchain missing, time-out, ...
        return None, str(e)
    if p.returncode != 0 or not os.path.exists(BIN):
        return None, p.stdout[-1500:]
    return time.time() - t0, ""


def frames(report):
    """frames of the crates under test in one TSan report, innermost first"""
    out = []
    for m in re.finditer(r"#\d+ (.*?) (/\S+?):(\d+)", report):
        fn, path = m.group(1), m.group(2)
        if "/repo/" in path:
            out.append((fn, path.split("/repo/")[1]))
    return out


def run(tier="quick"):
    """returns (info dict for the evidence, list of violations)"""
    secs, err = build()
    if secs is None:
        return dict(available=False, reason=err[-400:]), []
    shapes = SHAPES_THOROUGH if tier == "thorough" else SHAPES_QUICK
    env = dict(os.environ, TSAN_OPTIONS="halt_on_error=0 exitcode=0 history_size=7")
    viol, nproc, nrep, unattributed = {}, 0, 0, 0
    t0 = time.time()
    for copies, repeat, procs in shapes:
        for _ in range(procs):
            p = subprocess.run([BIN, str(copies), str(repeat)], stdout=subprocess.PIPE, stderr=subprocess.STDOUT, text=True, env=env, timeout=600)
            nproc += 1
            if "vtsan:" not in p.stdout:
                viol.setdefault("c18:tsan:crash", dict(sig="c18:tsan:crash", detail="the ThreadSanitizer build of the thread bodies died: " + p.stdout[-300:], replay=dict(mode="tsan", copies=copies, repeat=repeat), count=0))["count"] += 1
                continue
            for rep in p.stdout.split("==================")[1:]:
                if "ThreadSanitizer: data race" not in rep:
                    continue
                nrep += 1
                fr = frames(rep)
                if not fr:
                    # no frame in the crates under test: not attributed to them, listed in the evidence only
                    unattributed += 1
                    continue
                where = fr[0][1]
                fn = re.sub(r"[^A-Za-z0-9_:<>]", "", fr[0][0])[:60]
                sig = "c18:tsan:data-race:%s:%s" % (where, fn)
                v = viol.setdefault(sig, dict(sig=sig, detail="ThreadSanitizer reports a data race between free-running threads: " + " <- ".join("%s (%s)" % f for f in fr[:4]), replay=dict(mode="tsan", copies=copies, repeat=repeat), count=0))
                v["count"] += 1
    info = dict(available=True, kind="RACE DETECTOR (supplement, free-running threads, not coverage)", build_s=round(secs, 1), cold_processes=nproc, shapes=[dict(copies=c, repeat=r, processes=n) for c, r, n in shapes], reports=nrep, reports_without_a_frame_in_the_crates_under_test=unattributed, wall_s=round(time.time() - t0, 1))
    return info, list(viol.values())


if __name__ == "__main__":
    import json, sys
    info, v = run(sys.argv[1] if len(sys.argv) > 1 else "quick")
    print(json.dumps(info, indent=1))
    for x in v:
        print(x["sig"], x["count"], x["detail"][:300])
