#!/usr/bin/env python3
"""Confirm a seeded property-breaking change and run the checks against it.

  seedtool.py <seed-id> --patch P --demo SRC:DESTREL [--demo ...] --cmd "cargo test ... --offline" --props C02,C11
              --breaks C02 --needs "..." [--origin sub-agent|self]

1. scratch worktree of /repo (outside /repo and /verif): the 39-test baseline must still pass with the
   patch, the demo must FAIL with the patch and PASS without it;
2. the patch is applied to /repo itself, the named checks are run (quick tier), /repo is restored;
3. everything is stored in /verif/seeded/<seed-id>/ (patch.diff, demo/, meta.json).
"""
import argparse, json, os, shutil, subprocess, sys, time

VERIF = os.path.dirname(os.path.dirname(os.path.abspath(__file__)))
REPO = "/repo"

def sh(cmd, cwd=None, timeout=3600):
    p = subprocess.run(cmd, shell=True, cwd=cwd, stdout=subprocess.PIPE, stderr=subprocess.STDOUT, text=True, timeout=timeout)
    return p.returncode, p.stdout

def totals(out):
    p = f = 0
    for l in out.splitlines():
        if l.startswith("test result:"):
            w = l.split()
            p += int(w[3]); f += int(w[5])
    return p, f

def main():
    if len(sys.argv) > 1 and sys.argv[1] == "--cleanup":
        sh("git -C %s worktree remove --force /tmp/confirm-shared" % REPO)
        sh("git -C %s worktree prune" % REPO)
        return
    if len(sys.argv) > 2 and sys.argv[1] == "--recheck":
        # seedtool.py --recheck <id> <props> [tier]: re-run checks on a stored seed after a strengthening
        seed, props = sys.argv[2], sys.argv[3]
        tier = sys.argv[4] if len(sys.argv) > 4 else "quick"
        dest = os.path.join(VERIF, "seeded", seed)
        meta = json.load(open(os.path.join(dest, "meta.json")))
        rc, out = sh("git -C %s status --porcelain" % REPO)
        assert out.strip() == "", "/repo is not clean: " + out
        rc, out = sh("git -C %s apply %s" % (REPO, os.path.join(dest, "patch.diff")))
        assert rc == 0, out
        res = {}
        try:
            for pid in props.split(","):
                t0 = time.time()
                rc, out = sh("timeout %d ./check %s --tier %s 2>&1" % (3400 if tier == "thorough" else 900, pid, tier), cwd=VERIF)
                sigs = [l.strip() for l in out.splitlines() if l.startswith("  ") and ":" in l][:4]
                res[pid] = dict(exit=rc, first_signatures=sigs, wall_s=round(time.time() - t0, 1))
                print("recheck %s %s: exit=%d %s" % (seed, pid, rc, sigs[:1]))
        finally:
            sh("git -C %s checkout -- ." % REPO)
            rc, out = sh("git -C %s status --porcelain" % REPO)
            assert out.strip() == "", "/repo not restored: " + out
        meta["recheck_after_strengthening"] = dict(caught_by=[p for p, d in res.items() if d["exit"] == 1], checks=res)
        json.dump(meta, open(os.path.join(dest, "meta.json"), "w"), indent=1)
        return
    ap = argparse.ArgumentParser()
    ap.add_argument("seed")
    ap.add_argument("--patch", required=True)
    ap.add_argument("--demo", action="append", default=[])
    ap.add_argument("--cmd", required=True)
    ap.add_argument("--props", required=True)
    ap.add_argument("--breaks", required=True)
    ap.add_argument("--needs", default="")
    ap.add_argument("--origin", default="sub-agent")
    ap.add_argument("--tier", default="quick")
    ap.add_argument("--skip-confirm", action="store_true")
    ap.add_argument("--reuse-wt", action="store_true")
    a = ap.parse_args()
    meta = dict(seed=a.seed, breaks_property=a.breaks, needs=a.needs, origin=a.origin, ran=[])
    wt = "/tmp/confirm-" + a.seed
    if a.reuse_wt:
        # one persistent scratch worktree (incremental builds); remove it with `seedtool.py --cleanup`
        wt = "/tmp/confirm-shared"
    if not a.skip_confirm:
        if a.reuse_wt and os.path.isdir(wt):
            sh("git checkout -- . && git clean -fdq -e target", cwd=wt)
        else:
            sh("git -C %s worktree remove --force %s" % (REPO, wt))
            rc, out = sh("git -C %s worktree add -q %s HEAD" % (REPO, wt))
            assert rc == 0, out
        try:
            rc, out = sh("git apply %s" % os.path.abspath(a.patch), cwd=wt)
            assert rc == 0, "patch does not apply: " + out
            rc, out = sh("cargo test --workspace --no-fail-fast --offline 2>&1", cwd=wt)
            p, f = totals(out)
            meta["ran"].append(dict(cmd="cargo test --workspace --no-fail-fast --offline (with the change)", passed=p, failed=f, exit=rc))
            print("baseline with change: passed=%d failed=%d exit=%d" % (p, f, rc))
            for d in a.demo:
                src, dest = d.split(":")
                os.makedirs(os.path.dirname(os.path.join(wt, dest)), exist_ok=True)
                shutil.copy(src, os.path.join(wt, dest))
            rc1, out1 = sh(a.cmd + " 2>&1", cwd=wt)
            meta["ran"].append(dict(cmd=a.cmd + " (with the change)", exit=rc1, tail=out1[-600:]))
            print("demo with change: exit=%d" % rc1)
            sh("git apply -R %s" % os.path.abspath(a.patch), cwd=wt)
            rc2, out2 = sh(a.cmd + " 2>&1", cwd=wt)
            meta["ran"].append(dict(cmd=a.cmd + " (without the change)", exit=rc2, tail=out2[-300:]))
            print("demo without change: exit=%d" % rc2)
            meta["confirmed"] = (f == 0 and p >= 39 and rc == 0 and rc1 != 0 and rc2 == 0)
        finally:
            if a.reuse_wt:
                sh("git checkout -- . && git clean -fdq -e target", cwd=wt)
            else:
                sh("git -C %s worktree remove --force %s" % (REPO, wt))
                sh("git -C %s worktree prune" % REPO)
        print("CONFIRMED" if meta["confirmed"] else "NOT CONFIRMED")
    # run the checks against the change applied to /repo itself
    rc, out = sh("git -C %s status --porcelain" % REPO)
    assert out.strip() == "", "/repo is not clean: " + out
    rc, out = sh("git -C %s apply %s" % (REPO, os.path.abspath(a.patch)))
    assert rc == 0, out
    detected = {}
    try:
        for pid in a.props.split(","):
            t0 = time.time()
            rc, out = sh("timeout %d ./check %s --tier %s 2>&1" % (3400 if a.tier == "thorough" else 900, pid, a.tier), cwd=VERIF)
            lines = [l for l in out.splitlines() if l.startswith("VIOLATION") or "MACHINERY" in l]
            sigs = [l.strip() for l in out.splitlines() if l.startswith("  ") and ":" in l][:6]
            detected[pid] = dict(exit=rc, violation_lines=len(lines), first_signatures=sigs, wall_s=round(time.time() - t0, 1))
            print("check %s: exit=%d violations=%d %.0fs %s" % (pid, rc, len(lines), time.time() - t0, sigs[:2]))
    finally:
        sh("git -C %s checkout -- ." % REPO)
        rc, out = sh("git -C %s status --porcelain" % REPO)
        assert out.strip() == "", "/repo not restored: " + out
    meta["checks"] = detected
    meta["caught_by"] = [p for p, d in detected.items() if d["exit"] == 1]
    dest = os.path.join(VERIF, "seeded", a.seed)
    os.makedirs(os.path.join(dest, "demo"), exist_ok=True)
    shutil.copy(a.patch, os.path.join(dest, "patch.diff"))
    for d in a.demo:
        src, rel = d.split(":")
        shutil.copy(src, os.path.join(dest, "demo", os.path.basename(src)))
    meta["demo_install"] = [d.split(":")[1] for d in a.demo]
    meta["demo_cmd"] = a.cmd
    json.dump(meta, open(os.path.join(dest, "meta.json"), "w"), indent=1)
    print("caught by:", meta["caught_by"])

if __name__ == "__main__":
    main()
