#!/bin/bash
cd "$(dirname "$0")/.."
./check setup || exit 2
for p in ${THOROUGH_LIST:-C02 C08 C18}; do
  t0=$(date +%s)
  ./check $p --tier thorough > /tmp/thorough-$p.log 2>&1
  rc=$?
  echo "$p exit=$rc $(( $(date +%s) - t0 ))s $(tail -1 /tmp/thorough-$p.log | cut -c1-160)"
done
