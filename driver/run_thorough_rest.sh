#!/bin/bash
cd "$(dirname "$0")/.."
./check setup || exit 2
for p in C17 C18 C20 C11 C02 C08; do
  t0=$(date +%s)
  ./check $p --tier thorough > /tmp/thorough-$p.log 2>&1
  rc=$?
  echo "$p exit=$rc $(( $(date +%s) - t0 ))s $(tail -1 /tmp/thorough-$p.log | cut -c1-160)"
done
