from blb import read_blb
from math import isqrt
# pi hex digits via integer arithmetic (Machin)
def pi_frac_hex(nhex):
    prec=nhex*4+64
    def arctan_inv(x):
        one=1<<prec; t=one//x; s=t; n=1; x2=x*x; sign=-1
        while t:
            t//=x2; n+=2; s+=sign*(t//n); sign=-sign
        return s
    pi=4*(4*arctan_inv(5)-arctan_inv(239))
    frac=pi-(3<<prec)
    return frac>>64
PI=pi_frac_hex(256)  # 1024 bits
def piw(i,w): return (PI>>(1024-(i+1)*w))&((1<<w)-1)
U32=[piw(i,32) for i in range(16)]; U64=[piw(i,64) for i in range(16)]
assert U32[0]==0x243f6a88 and U64[15]==0x636920d871574e69, (hex(U32[0]),hex(U64[15]))
def frac_sqrt(p,bits): return isqrt(p<<(2*bits)) & ((1<<bits)-1)
pr8=[2,3,5,7,11,13,17,19]; pr9_16=[23,29,31,37,41,43,47,53]
IV256=[frac_sqrt(p,32) for p in pr8]; IV512=[frac_sqrt(p,64) for p in pr8]
IV384=[frac_sqrt(p,64) for p in pr9_16]; IV224=[x&0xffffffff for x in IV384]
assert IV256[0]==0x6a09e667 and IV224[0]==0xc1059ed8 and IV384[0]==0xcbbb9d5dc1059ed8
SIG=[[0,1,2,3,4,5,6,7,8,9,10,11,12,13,14,15],[14,10,4,8,9,15,13,6,1,12,0,2,11,7,5,3],[11,8,12,0,5,2,15,13,10,14,3,6,7,1,9,4],[7,9,3,1,13,12,11,14,2,6,5,10,4,0,15,8],[9,0,5,7,2,4,10,15,14,1,11,12,6,8,3,13],[2,12,6,10,0,11,8,3,4,13,7,5,15,14,1,9],[12,5,1,15,14,13,4,10,0,7,6,3,9,2,8,11],[13,11,7,14,12,1,3,9,5,0,15,4,8,6,2,10],[6,15,14,9,11,3,0,8,12,2,13,7,1,4,10,5],[10,2,8,4,7,6,1,5,15,11,9,14,3,12,13,0]]
def blake(bits,msg):
    big=bits>256; w=64 if big else 32; W=(1<<w)-1; B=16*w//8
    U=U64 if big else U32; rounds=16 if big else 14; rot=(32,25,16,11) if big else (16,12,8,7)
    h={224:IV224,256:IV256,384:IV384,512:IV512}[bits][:]
    def rotr(x,r): return ((x>>r)|(x<<(w-r)))&W
    def compress(h,blk,t):
        m=[int.from_bytes(blk[i*w//8:(i+1)*w//8],'big') for i in range(16)]
        v=h[:]+U[:8]
        v[12]^=t&W; v[13]^=t&W; v[14]^=t>>w; v[15]^=t>>w
        def G(a,b,c,d,r,i):
            s=SIG[r%10]
            v[a]=(v[a]+v[b]+(m[s[2*i]]^U[s[2*i+1]]))&W; v[d]=rotr(v[d]^v[a],rot[0])
            v[c]=(v[c]+v[d])&W; v[b]=rotr(v[b]^v[c],rot[1])
            v[a]=(v[a]+v[b]+(m[s[2*i+1]]^U[s[2*i]]))&W; v[d]=rotr(v[d]^v[a],rot[2])
            v[c]=(v[c]+v[d])&W; v[b]=rotr(v[b]^v[c],rot[3])
        for r in range(rounds):
            G(0,4,8,12,r,0);G(1,5,9,13,r,1);G(2,6,10,14,r,2);G(3,7,11,15,r,3)
            G(0,5,10,15,r,4);G(1,6,11,12,r,5);G(2,7,8,13,r,6);G(3,4,9,14,r,7)
        return [h[i]^v[i]^v[i+8] for i in range(8)]
    # padding as bit string
    l=len(msg)*8
    lenbytes=2*w//8
    # message || 1 || 0* || (1 if full else 0) || len ; total multiple of B*8, with marker bit last before len
    k=(-(l+1+1+lenbytes*8))%(B*8)
    bits_s=bin(int.from_bytes(msg,'big'))[2:].zfill(l) if l else ''
    s=bits_s+'1'+'0'*k+('1' if bits in (256,512) else '0')+bin(l)[2:].zfill(lenbytes*8)
    data=int(s,2).to_bytes(len(s)//8,'big')
    nb=len(data)//B
    for i in range(nb):
        # counter: number of message bits hashed so far incl this block; 0 if block has no message bits
        upto=min(l,(i+1)*B*8)
        t=upto if upto>i*B*8 else 0
        h=compress(h,data[i*B:(i+1)*B],t)
    out=b''.join(x.to_bytes(w//8,'big') for x in h)
    return out[:bits//8]
for bits in (224,256,384,512):
    v=read_blb('/repo/hashes/blake/tests/data/blake%d.blb'%bits)
    print(bits,[len(m) for m,_ in v],[blake(bits,m)==d for m,d in v])
print(blake(512,b'').hex()[:32], blake(256,b'').hex()[:32])
print([blake(256,b'\0'*n).hex()[:8] for n in (55,56,64)])
