import sys, re
sys.path.insert(0,'/verif/notes/oracle-probes')
import importlib, io, contextlib
def imp(name):
    with contextlib.redirect_stdout(io.StringIO()):
        return importlib.import_module(name)
bl=imp('bl'); jh=imp('jh'); gr=imp('gr'); sk=imp('sk')
def msg(n): return bytes(((i*7+3)&0xff) for i in range(n))
bad=0; n=0
from collections import Counter
cnt=Counter()
for line in open('/tmp/pe/out.txt'):
    name,l,hexd=line.split(); l=int(l)
    m=msg(l)
    if name.startswith('blake'): exp=bl.blake(int(name[5:]),m)
    elif name.startswith('jh'): exp=jh.jh(int(name[2:]),m)
    elif name.startswith('groestl'):
        if l>2000 and name!='groestl256': continue
        exp=gr.groestl(int(name[7:]),m)
    else:
        a,N=name.split('_'); B=int(a[5:])//8; exp=sk.skein(B,m,int(N))
    n+=1; cnt[name.split('_')[0]]+=1
    if exp.hex()!=hexd:
        bad+=1
        if bad<10: print('MISMATCH',name,l,hexd[:16],exp.hex()[:16])
print('compared',n,'mismatches',bad,dict(cnt))
