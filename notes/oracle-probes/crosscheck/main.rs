use digest::Digest;
use digest::generic_array::typenum::*;
fn hx(b: &[u8]) -> String { b.iter().map(|x| format!("{:02x}", x)).collect() }
fn msg(n: usize) -> Vec<u8> { (0..n).map(|i| (i * 7 + 3) as u8).collect() }
fn run<D: Digest>(name: &str, lens: &[usize]) { for &l in lens { println!("{} {} {}", name, l, hx(&D::digest(&msg(l)))); } }
fn main() {
    let l64: Vec<usize> = (0..=200).chain([255,256,257,300,1000]).collect();
    let l128: Vec<usize> = (0..=300).chain([383,384,385,511,512,513,1000]).collect();
    run::<blake_hash::Blake224>("blake224", &l64); run::<blake_hash::Blake256>("blake256", &l64);
    run::<blake_hash::Blake384>("blake384", &l128); run::<blake_hash::Blake512>("blake512", &l128);
    let lj: Vec<usize> = (0..=140).step_by(1).collect();
    run::<jh_x86_64::Jh224>("jh224", &lj[..70]); run::<jh_x86_64::Jh256>("jh256", &lj); run::<jh_x86_64::Jh384>("jh384", &lj[..70]); run::<jh_x86_64::Jh512>("jh512", &lj[60..]);
    let lg: Vec<usize> = (0..=140).chain([255,256,257,300]).collect();
    run::<groestl_aesni::Groestl224>("groestl224", &lg[..80]); run::<groestl_aesni::Groestl256>("groestl256", &lg);
    let lg2: Vec<usize> = (100..=270).chain([16320]).collect();
    run::<groestl_aesni::Groestl384>("groestl384", &lg2[..60]); run::<groestl_aesni::Groestl512>("groestl512", &lg2);
    run::<groestl_aesni::Groestl256>("groestl256", &[16320, 16383, 16384, 20000]);
    let ls: Vec<usize> = (0..=70).chain([95,96,97,127,128,129,255,256,257,300]).collect();
    macro_rules! sk { ($t:ident, $nm:expr, $($n:ident),*) => { $( run::<skein_hash::$t<$n>>(&format!("{}_{}", $nm, <$n as Unsigned>::USIZE), &ls); )* } }
    sk!(Skein256, "skein256", U1, U7, U31, U32, U33, U64, U65, U100, U300);
    sk!(Skein512, "skein512", U1, U9, U32, U63, U64, U65, U129, U300);
    sk!(Skein1024, "skein1024", U1, U20, U64, U127, U128, U129, U257, U300);
}
