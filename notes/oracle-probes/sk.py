from blb import read_blb
M=(1<<64)-1
R={4:[[14,16],[52,57],[23,40],[5,37],[25,33],[46,12],[58,22],[32,32]],
 8:[[46,36,19,37],[33,27,14,42],[17,49,36,39],[44,9,54,56],[39,30,34,24],[13,50,10,17],[25,29,39,43],[8,35,56,22]],
 16:[[24,13,8,47,8,17,22,37],[38,19,10,55,49,18,23,52],[33,4,51,13,34,41,59,17],[5,20,48,41,47,28,16,25],[41,9,37,31,12,47,44,30],[16,34,56,51,4,53,42,41],[31,44,47,46,19,42,44,25],[9,48,35,52,23,31,37,20]]}
PI={4:[0,3,2,1],8:[2,1,4,7,6,5,0,3],16:[0,9,2,13,6,11,4,15,10,7,12,3,14,5,8,1]}
def rotl(x,r): return ((x<<r)|(x>>(64-r)))&M
def tf_enc(key,tw,blk):
    nw=len(key); nr=80 if nw==16 else 72
    k=key+[0x1BD11BDAA9FC1A22]
    for x in key: k[nw]^=x
    t=[tw[0],tw[1],tw[0]^tw[1]]
    def sub(s):
        sk=[k[(s+i)%(nw+1)] for i in range(nw)]
        sk[nw-3]=(sk[nw-3]+t[s%3])&M; sk[nw-2]=(sk[nw-2]+t[(s+1)%3])&M; sk[nw-1]=(sk[nw-1]+s)&M
        return sk
    v=blk[:]
    for d in range(nr):
        if d%4==0:
            sk=sub(d//4); v=[(a+b)&M for a,b in zip(v,sk)]
        f=[0]*nw
        for j in range(nw//2):
            x0,x1=v[2*j],v[2*j+1]
            y0=(x0+x1)&M; y1=rotl(x1,R[nw][d%8][j])^y0
            f[2*j],f[2*j+1]=y0,y1
        v=[f[PI[nw][i]] for i in range(nw)]
    sk=sub(nr//4)
    return [(a+b)&M for a,b in zip(v,sk)]
def w(b): return [int.from_bytes(b[i:i+8],'little') for i in range(0,len(b),8)]
def ub(ws): return b''.join(x.to_bytes(8,'little') for x in ws)
def ubi(G,msg,typ,B):
    # msg bytes; tweak 128-bit
    if len(msg)==0: blocks=[b'']
    else: blocks=[msg[i:i+B] for i in range(0,len(msg),B)]
    pos=0
    for i,bl in enumerate(blocks):
        pos+=len(bl)
        first=(i==0); final=(i==len(blocks)-1)
        T=pos | (typ<<120) | (first<<126) | (final<<127)
        blp=bl+b'\0'*(B-len(bl))
        c=tf_enc(w(G),[T&M,T>>64],w(blp))
        G=ub([a^b for a,b in zip(c,w(blp))])
    return G
def skein(B,msg,N):
    cfg=b'SHA3'+(1).to_bytes(2,'little')+b'\0\0'+(N*8).to_bytes(8,'little')+b'\0'*16
    G=ubi(b'\0'*B,cfg,4,B)
    G=ubi(G,msg,48,B)
    out=b''; i=0
    while len(out)<N:
        out+=ubi(G,i.to_bytes(8,'little'),63,B); i+=1
    return out[:N]
for B in (32,64,128):
  for N in (32,64):
    v=read_blb('/repo/hashes/skein/tests/data/skein%d_%d.blb'%(B*8,N))
    print(B*8,N,[len(m) for m,_ in v],[skein(B,m,N)==d for m,d in v])
