from blb import read_blb
def xt(a): 
    a<<=1
    return (a^0x11b)&0xff if a&0x100 else a
def mul(a,b):
    r=0
    while b:
        if b&1: r^=a
        a=xt(a); b>>=1
    return r
# AES sbox generated
def inv(a):
    if a==0: return 0
    for b in range(1,256):
        if mul(a,b)==1: return b
SBOX=[]
for a in range(256):
    x=inv(a); y=x
    for i in range(1,5): y^=((x<<i)|(x>>(8-i)))&0xff
    SBOX.append(y^0x63)
assert SBOX[0]==0x63 and SBOX[1]==0x7c and SBOX[0x53]==0xed
MB=[2,2,3,4,5,3,5,7]
SH={('P',8):[0,1,2,3,4,5,6,7],('Q',8):[1,3,5,7,0,2,4,6],('P',16):[0,1,2,3,4,5,6,11],('Q',16):[1,3,5,11,0,2,4,6]}
def perm(st,which,cols):
    rounds=10 if cols==8 else 14
    st=[row[:] for row in st]
    for r in range(rounds):
        if which=='P':
            for j in range(cols): st[0][j]^=(j<<4)^r
        else:
            for i in range(8):
                for j in range(cols): st[i][j]^=0xff
            for j in range(cols): st[7][j]^=(j<<4)^r
        st=[[SBOX[x] for x in row] for row in st]
        sh=SH[(which,cols)]
        st=[[st[i][(j+sh[i])%cols] for j in range(cols)] for i in range(8)]
        n=[[0]*cols for _ in range(8)]
        for j in range(cols):
            for i in range(8):
                v=0
                for k in range(8): v^=mul(MB[k],st[(i+k)%8][j])
                n[i][j]=v
        st=n
    return st
def tomat(b,cols): return [[b[j*8+i] for j in range(cols)] for i in range(8)]
def frommat(st,cols): return bytes(st[i][j] for j in range(cols) for i in range(8))
def xor(a,b): return [[x^y for x,y in zip(r,s)] for r,s in zip(a,b)]
def groestl(bits,msg):
    cols=8 if bits<=256 else 16
    B=cols*8
    iv=bytearray(B); iv[-2]=bits>>8; iv[-1]=bits&0xff
    h=tomat(iv,cols)
    l=len(msg)
    w=(-(l+1+8))%B
    nblocks=(l+1+w+8)//B
    m=msg+b'\x80'+b'\0'*w+nblocks.to_bytes(8,'big')
    for i in range(0,len(m),B):
        mm=tomat(m[i:i+B],cols)
        h=xor(xor(perm(xor(h,mm),'P',cols),perm(mm,'Q',cols)),h)
    o=frommat(xor(perm(h,'P',cols),h),cols)
    return o[-bits//8:]
for bits in (224,256,384,512):
    v=read_blb('/repo/hashes/groestl/tests/data/groestl%d.blb'%bits)
    idx=[0,1,55,56,57,63,64,65,119,120,121,127,128,129,200,255]
    ok=sum(groestl(bits,v[i][0])==v[i][1] for i in idx)
    print(bits,len(v),'checked',len(idx),'ok',ok, [len(v[i][0]) for i in idx][:4])
