import struct
def read_blb(path):
    d=open(path,'rb').read()
    assert d[:6]==b'blobby'
    n=int(chr(d[6])); d=d[7:]; out=[]; i=0
    while i<len(d):
        l=int.from_bytes(d[i:i+n],'little'); i+=n
        out.append(d[i:i+l]); i+=l
    return list(zip(out[0::2],out[1::2]))
