from blb import read_blb
S=[[9,0,4,11,13,12,3,15,1,10,2,6,7,5,8,14],[3,12,6,13,5,7,1,9,15,2,0,4,11,10,14,8]]
def mul2(a): return ((a<<1)^(a>>3)^((a>>2)&2))&0xf
def L(a,b):
    b^=mul2(a); a^=mul2(b); return a,b
RC0=[int(c,16) for c in "6a09e667f3bcc908b2fb1366ea957d3e3adec17512775099da2f590b0667322a"]
def Rd(A, cbits, d):
    n=1<<d
    t=[S[cbits[i]][A[i]] for i in range(n)]
    for i in range(0,n,2): t[i],t[i+1]=L(t[i],t[i+1])
    for i in range(0,n,4): t[i+2],t[i+3]=t[i+3],t[i+2]
    B=[0]*n
    for i in range(n//2): B[i]=t[2*i]; B[i+n//2]=t[2*i+1]
    for i in range(n//2,n,2): B[i],B[i+1]=B[i+1],B[i]
    return B
def E8(H):
    bits=[(H[i>>3]>>(7-(i&7)))&1 for i in range(1024)]
    tem=[(bits[i]<<3)|(bits[i+256]<<2)|(bits[i+512]<<1)|bits[i+768] for i in range(256)]
    A=[0]*256
    for i in range(128): A[2*i]=tem[i]; A[2*i+1]=tem[i+128]
    rc=RC0[:]
    for r in range(42):
        cb=[]
        for x in rc: cb+=[(x>>3)&1,(x>>2)&1,(x>>1)&1,x&1]
        A=Rd(A,cb,8)
        rc=Rd(rc,[0]*64,6)
    tem=[0]*256
    for i in range(128): tem[i]=A[2*i]; tem[i+128]=A[2*i+1]
    out=[0]*128
    for i in range(256):
        for k,off in enumerate((0,256,512,768)):
            b=(tem[i]>>(3-k))&1
            out[(i+off)>>3]|=b<<(7-(i&7))
    return out
def F8(H,M):
    H=H[:]
    for i in range(64): H[i]^=M[i]
    H=E8(H)
    for i in range(64): H[64+i]^=M[i]
    return H
def jh(bits,msg):
    H=[0]*128; H[0]=bits>>8; H[1]=bits&0xff
    H=F8(H,[0]*64)
    l=len(msg)*8
    if len(msg)%64==0:
        pad=b'\x80'+b'\0'*47+(l).to_bytes(16,'big')
    else:
        pad=b'\x80'+b'\0'*(63-len(msg)%64)+b'\0'*48+l.to_bytes(16,'big')
    m=msg+pad
    assert len(m)%64==0
    for i in range(0,len(m),64): H=F8(H,list(m[i:i+64]))
    return bytes(H[128-bits//8:])
import sys
for bits in (224,256,384,512):
    v=read_blb('/repo/hashes/jh/tests/data/ShortMsgKAT_%d.blb'%bits)
    ok=0
    for m,d in v[:12]+v[60:70]+v[-2:]:
        ok+= jh(bits,m)==d
    print(bits,len(v),'checked',24,'ok',ok)
